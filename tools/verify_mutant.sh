#!/bin/sh
# verify_mutant.sh <worktree> <mutantdir>: confirm in the scratch worktree that the patch compiles, the repository's
# test suite still passes, and the demo fails with the patch and passes without it.
WT=$1; M=$2
cd $WT || exit 2
git checkout -q -- . 
set -e
[ -f _build/build.ninja ] || cmake -G Ninja -S $WT -B $WT/_build -DCMAKE_BUILD_TYPE=RelWithDebInfo >/dev/null
cmake --build _build -j8 >/dev/null
cc -I$WT/include -I$WT/_build/include $M/demo.c $WT/_build/libsndfile.a -lm -o $M/demo_clean 2>/dev/null
set +e
$M/demo_clean >/dev/null 2>&1; CLEAN=$?
git apply $M/patch.diff || { echo "PATCH-FAILS-TO-APPLY"; exit 2; }
cmake --build _build -j8 >/dev/null || { echo "DOES-NOT-COMPILE"; git checkout -q -- .; exit 2; }
TESTS=$(ctest --test-dir _build -j8 --timeout 900 2>&1 | grep "tests passed" )
cc -I$WT/include -I$WT/_build/include $M/demo.c $WT/_build/libsndfile.a -lm -o $M/demo_mut 2>/dev/null
$M/demo_mut >/dev/null 2>&1; MUT=$?
git checkout -q -- .
rm -f $M/demo_clean $M/demo_mut
echo "mutant=$M clean_exit=$CLEAN mutant_exit=$MUT tests=[$TESTS]"
