#!/bin/sh
# coverage.sh [plans-per-profile]: line coverage of /repo/src reached by each profile (and by all together), measured with an
# llvm-cov build of the library and of sndsim in /verif/build/cov. Plans run in one process per profile (sndsim one --pre ...).
N=${1:-1200}
B=/verif/build/cov
CF="-O1 -g -fno-omit-frame-pointer -fsanitize=address -fprofile-instr-generate -fcoverage-mapping -DLIBSNDFILE_VERIF"
[ -f $B/asan/build.ninja ] || cmake -G Ninja -S /repo -B $B/asan -DCMAKE_C_COMPILER=clang -DCMAKE_BUILD_TYPE=None "-DCMAKE_C_FLAGS=$CF" -DBUILD_TESTING=OFF -DBUILD_PROGRAMS=OFF -DBUILD_EXAMPLES=OFF -DBUILD_REGTEST=OFF -DENABLE_EXTERNAL_LIBS=OFF -DENABLE_MPEG=OFF -DENABLE_CPACK=OFF -DENABLE_PACKAGE_CONFIG=OFF -DBUILD_SHARED_LIBS=OFF >/dev/null
cmake --build $B/asan -j16 >/dev/null || exit 2
make -C /verif/sim -j16 BUILD=$B SAN="-fsanitize=address -fprofile-instr-generate -fcoverage-mapping" >/dev/null || exit 2
rm -rf $B/prof && mkdir -p $B/prof
PRE=$(seq -s, 1 $N)
for p in C01 C03 C04 C05 C06 C07 C08 C09 C11 C12 C13 C14 C15 C16 C17 C18 C19; do
	n=$N; case $p in C15|C17|C07|C14|C19) n=$((N/4));; esac
	( LLVM_PROFILE_FILE=$B/prof/$p.profraw ASAN_OPTIONS=detect_leaks=0 $B/sndsim one $p --seed 1 --idx 0 --pre $(seq -s, 1 $n) >/dev/null 2>&1 ) &
done
wait
for p in $B/prof/*.profraw; do llvm-profdata-14 merge -o ${p%.profraw}.profdata $p 2>/dev/null; done
llvm-profdata-14 merge -o $B/prof/all.profdata $B/prof/*.profraw
python3 /verif/tools/coverage_report.py $B
