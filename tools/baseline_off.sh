#!/bin/sh
# Rebuild /repo/_build WITHOUT the LIBSNDFILE_VERIF guard and run the repository's own test suite.
set -e
if [ ! -f /repo/_build/build.ninja ] && [ ! -f /repo/_build/Makefile ]; then
	cmake -G Ninja -S /repo -B /repo/_build >/dev/null
fi
cmake --build /repo/_build -j16 >/dev/null
ctest --test-dir /repo/_build -j8 --timeout 900 "$@"
