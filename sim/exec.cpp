#include "exec.hpp"
#include <cmath>
#include <cfloat>
#include <climits>
#include <cstring>
#include <fcntl.h>
#include <unistd.h>
#include <algorithm>

// ------------------------------------------------------------------------------------------
// value generation: counter based, so shrinking can drop ops without changing the others

static inline int64_t sext (uint64_t v, int w) { if (w >= 64) return (int64_t) v ; uint64_t m = 1ULL << (w - 1) ; v &= (1ULL << w) - 1 ; return (int64_t) ((v ^ m) - m) ; }

static float f_from_bits (uint32_t b) { float f ; memcpy (&f, &b, 4) ; return f ; }
static uint32_t f_bits (float f) { uint32_t b ; memcpy (&b, &f, 4) ; return b ; }
static uint64_t d_bits (double f) { uint64_t b ; memcpy (&b, &f, 8) ; return b ; }
static double d_from_bits (uint64_t b) { double f ; memcpy (&f, &b, 8) ; return f ; }

static double gen_real (uint64_t h, int64_t idx, const DataDesc &d, bool dbl)
{	const std::string &c = d.cls ;
	if (c == "zeros") return 0.0 ;
	if (c == "ramp") return (double) ((idx * 37 + d.stream) % 2000 - 1000) / 1024.0 ;
	if (c == "sine") return 0.9 * sin ((double) idx * 0.05 + (double) d.stream) ;
	if (c == "extremes" && !d.normals)
	{	if (dbl)
		{	static const double t [] = { DBL_MAX, -DBL_MAX, DBL_MIN, -DBL_MIN, 4.9406564584124654e-324, -4.9406564584124654e-324, 0.0, -0.0, 1.0, -1.0, 0.99999999999999989, 1e300, -1e-300, FLT_MAX, 3.0e38 } ;
			return t [h % (sizeof (t) / sizeof (t [0]))] ;
		}
		static const float t [] = { FLT_MAX, -FLT_MAX, FLT_MIN, -FLT_MIN, 1.4e-45f, -1.4e-45f, 0.0f, -0.0f, 1.0f, -1.0f, 0.99999994f, 1e30f, -1e-30f, 1.17549421e-38f } ;
		return t [h % (sizeof (t) / sizeof (t [0]))] ;
	}
	if (c == "extremes")
	{	static const float t [] = { FLT_MAX, -FLT_MAX, FLT_MIN, -FLT_MIN, 1.0f, -1.0f, 0.99999994f, 1e30f, -1e-30f, 0.5f } ;
		return t [h % (sizeof (t) / sizeof (t [0]))] ;
	}
	if (c == "pm1_edges")
	{	static const double t [] = { 1.0, -1.0, 0.99999994, -0.99999994, 0.5, -0.5, 0.25, 1.0 / 32768, -1.0 / 32768, 0.0 } ;
		return t [h % (sizeof (t) / sizeof (t [0]))] ;
	}
	if (c == "ties")		// few distinct magnitudes so maxima tie
	{	static const double t [] = { 0.9, -0.9, 0.5, -0.5, 0.9, 0.25, -0.9, 0.1 } ;
		return t [h % (sizeof (t) / sizeof (t [0]))] ;
	}
	if (c == "spikes")		// quiet signal with rare full-scale samples (see gen_bits)
	{	uint64_t e = (h >> 13) % 48 ;
		if (e == 0) return -1.0 ; if (e == 1) return 0.99996948242187500 ; if (e == 2) return (idx & 1) ? 0.5 : -0.5 ;
		return (double) ((int64_t) ((h >> 7) & 63) - 32) / 32768.0 ;
	}
	// noise in [-1, 1)
	if (dbl) return (double) (int64_t) (h >> 11) / 4503599627370496.0 - 1.0 ;
	return (double) (float) ((double) (int32_t) (h >> 40) / 8388608.0 - 1.0) ;
}

uint64_t gen_bits (uint64_t key, int64_t idx, int T, const DataDesc &d, int lz)
{	uint64_t h = mix3 (key, (uint64_t) d.stream, (uint64_t) idx) ;
	if (T == T_FLOAT) return f_bits ((float) gen_real (h, idx, d, false)) ;
	if (T == T_DOUBLE) return d_bits (gen_real (h, idx, d, true)) ;
	int tb = T == T_SHORT ? 16 : 32 ;
	int extra = d.cls == "lowzero" ? d.k : 0 ;
	int z = lz + extra ; if (z > tb - 1) z = tb - 1 ; if (z < 0) z = 0 ;
	int w = tb - z ;		// effective width
	int64_t v ;
	const std::string &c = d.cls ;
	int64_t mx = (w >= 2) ? ((1LL << (w - 1)) - 1) : 0, mn = -(1LL << (w - 1)) ;
	if (c == "zeros") v = 0 ;
	else if (c == "ramp") v = sext ((uint64_t) (idx * 37 + d.stream), w) ;
	else if (c == "sine") v = (int64_t) llrint (0.9 * sin ((double) idx * 0.05 + (double) d.stream) * (double) mx) ;
	else if (c == "extremes")
	{	int64_t t [] = { mn, mx, 0, -1, 1, mn + 1, mx - 1, mn, mx } ;
		v = t [h % 9] ;
		if (v > mx) v = mx ; if (v < mn) v = mn ;
	}
	else if (c == "spikes")
	{	// quiet, compressible signal (six significant bits) with rare full-scale events: the most negative and most positive value,
		// jumps of exactly half the range between neighbours, short runs of a constant extreme. Predictors, delta coders and
		// entropy coders meet their boundary residuals here without the block turning incompressible.
		uint64_t e = (h >> 13) % 48, run = mix3 (key, (uint64_t) d.stream + 77, (uint64_t) (idx / 6)) % 97 ;
		int64_t half = w >= 3 ? (1LL << (w - 2)) : 1 ;
		if (run == 0) v = (mix3 (key, 5, (uint64_t) (idx / 6)) & 1) ? mn : mx ;
		else if (e == 0) v = mn ;
		else if (e == 1) v = mx ;
		else if (e == 2) v = (idx & 1) ? half : -half ;
		else if (e == 3) v = mn + 1 ;
		else v = sext (h >> 7, w < 6 ? w : 6) ;
	}
	else v = sext (h >> 7, w) ;
	int64_t out = (int64_t) ((uint64_t) v << z) ;
	if (T == T_SHORT) return (uint64_t) (uint16_t) (int16_t) out ;
	return (uint64_t) (uint32_t) (int32_t) out ;
}

void fill_buffer (void *buf, int T, int64_t items, uint64_t key, int64_t start_idx, const DataDesc &d, int lz)
{	for (int64_t k = 0 ; k < items ; k++)
	{	uint64_t b = gen_bits (key, start_idx + k, T, d, lz) ;
		switch (T)
		{	case T_SHORT : ((int16_t *) buf) [k] = (int16_t) (uint16_t) b ; break ;
			case T_INT : ((int32_t *) buf) [k] = (int32_t) (uint32_t) b ; break ;
			case T_FLOAT : ((float *) buf) [k] = f_from_bits ((uint32_t) b) ; break ;
			case T_DOUBLE : ((double *) buf) [k] = d_from_bits (b) ; break ;
			default : ((uint8_t *) buf) [k] = (uint8_t) b ; break ;
		}
	}
}

static inline uint64_t item_bits (const void *buf, int T, int64_t k)
{	switch (T)
	{	case T_SHORT : return (uint64_t) (uint16_t) ((const int16_t *) buf) [k] ;
		case T_INT : return (uint64_t) (uint32_t) ((const int32_t *) buf) [k] ;
		case T_FLOAT : { uint32_t b ; memcpy (&b, (const char *) buf + 4 * k, 4) ; return b ; }
		case T_DOUBLE : { uint64_t b ; memcpy (&b, (const char *) buf + 8 * k, 8) ; return b ; }
		default : return ((const uint8_t *) buf) [k] ;
	}
}

DataDesc data_desc_from (const J &j)
{	DataDesc d ;
	if (!j.is_obj ()) return d ;
	d.cls = j.gets ("class", "noise") ; d.k = (int) j.geti ("k", 0) ; d.stream = j.geti ("stream", 0) ; d.normals = j.geti ("normals", 0) != 0 ;
	return d ;
}
J data_desc_to (const DataDesc &d)
{	J j = J::obj () ; j ["class"] = d.cls ; if (d.k) j ["k"] = d.k ; j ["stream"] = d.stream ; if (d.normals) j ["normals"] = 1 ;
	return j ;
}

uint64_t transcript_hash (const std::vector<Rec> &t)
{	uint64_t h = 1469598103934665603ULL ;
	for (auto &r : t)
	{	if (r.skipped) continue ;
		h = fnv1a (r.api.data (), r.api.size (), h) ;
		h = fnv1a (&r.ret, 8, h) ; h = fnv1a (&r.err, 4, h) ; h = fnv1a (&r.dh, 8, h) ;
	}
	return h ;
}

// ------------------------------------------------------------------------------------------

#define GUARD(t, r) simos_poison_stack (os.mem_fill) ; os.jmp_armed = true ; if (setjmp (os.jb) != 0) { budget_fail (t, r) ; return ; }

namespace {

struct StoreModel
{	bool written = false ;			// produced by a write session of this plan
	const Fmt *fmt = nullptr ;
	int ch = 0, rate = 0 ;
	int64_t N = 0 ;					// frames accepted by write calls (final frame count of the model)
	bool clean = true ;				// no fault / failed write touched it
	// exact value model
	bool model_on = false ;
	int T = -1 ;
	std::vector<uint64_t> val ;	// per item
	std::vector<uint8_t> known ;
	bool corrupted = false ;
	int64_t dataoffset = 0 ;
	bool ieee_replace = false ;	// a writer had the portable IEEE encoder switched on (SFC_TEST_IEEE_FLOAT_REPLACE)
} ;

struct Task
{	int id = 0 ;
	const J *ops = nullptr ;
	size_t pc = 0 ;
	SNDFILE *sf = nullptr ;
	SF_INFO info ;
	int mode = 0 ;
	std::string route, store ;
	const Fmt *fmt = nullptr ;
	SimVio *vio = nullptr ;
	int fd = -1 ;
	bool close_desc = true ;
	int ch = 1, rate = 0 ;
	int64_t rd = 0, wr = 0, frames = 0 ;
	bool seekable = true ;
	bool pos_known = true ;
	bool stop = false ;
	bool faulted = false ;
	bool io_failed = false ;
	int64_t stream_pos = 0 ;
	DataDesc data ;
	std::map<int, std::vector<uint64_t>> ref ;
	bool modified_since_open = false ;
	int64_t emb_k = -1, emb_len = 0 ;
	bool auto_on = false, update_requested = false ;
	bool raw_read_done = false ;		// a raw read bypassed the decoder on this handle (matters for delta codecs)
	SimFileP emb_file ;
	std::vector<uint8_t> emb_before ;		// container bytes before an embedded read/write open
	bool done () const { return !ops || pc >= ops->size () ; }
} ;

struct Exec
{	const J &plan ;
	ExecOpts opts ;
	SimOS &os ;
	Result res ;
	std::vector<Task> tasks ;
	std::map<std::string, StoreModel> sm ;
	uint64_t key ;
	bool fault_profile = false ;

	Exec (const J &p, const ExecOpts &o) : plan (p), opts (o), os (*g_os) {}

	// ---- helpers
	void viol (Task &t, const std::string &clause, const std::string &disc, const std::string &detail)
	{	Viol v ; v.clause = clause ; v.disc = disc ; v.detail = detail ; v.task = t.id ; v.op = (int) t.pc ;
		v.fmt = t.fmt ? t.fmt->name : "-" ; v.route = t.route ;
		v.fault = t.faulted ? fault_name (os.last_fault_kind) : "none" ;
		res.viols.push_back (v) ;
		t.stop = true ;
	}
	void probe (const char *name, uint64_t n = 1) { res.probes [name] += n ; }

	// the library call did not return within its simulated I/O step budget: the handle is abandoned
	void budget_fail (Task &t, Rec &r)
	{	os.in_lib = false ; os.op_budget = 0 ; os.jmp_armed = false ;
		r.ret = -999 ; r.err = -1 ;
		std::string api = os.cur_api ;
		t.stop = false ;
		viol (t, "budget", api, "call did not return within its simulated I/O step budget (" + api + ")") ;
		t.sf = nullptr ; t.vio = nullptr ; t.fd = -1 ; t.stop = true ;
		res.budget_hit = true ;
		res.api_calls ++ ;
	}

	Digest digest (Task &t)
	{	Digest d ;
		if (t.sf && sf_verif_state_digest (t.sf, d.v, DG_COUNT) == DG_COUNT) d.ok = true ;
		return d ;
	}

	int64_t budget_for (Task &t, int64_t req_bytes)
	{	int64_t sz = 0 ;
		auto it = os.ns.find ("/sim/cwd/" + t.store) ;
		if (it != os.ns.end ()) sz = (int64_t) it->second->data.size () ;
		// bounded time = a bounded number of I/O steps: linear in the size of the store and of the request, plus room for one loop
		// over a 16-bit count taken from the input (e.g. 65535 AIFF comments at EOF, ~10 steps each): such a loop is slow for a tiny
		// input but it terminates, and the property asks for a bound, not for a speed
		return (1 << 20) + 4 * (sz + req_bytes) ;
	}

	void after_call (Task &t, Rec &r)
	{	res.api_calls ++ ;
		os.end_op () ;
		if (os.any_fault_fired && !t.faulted) { t.faulted = true ; }
		r.faulted = t.faulted ;
		os.trace_mix (fnv1a (r.api.data (), r.api.size ())) ; os.trace_mix ((uint64_t) r.ret) ; os.trace_mix ((uint64_t) r.err) ; os.trace_mix (r.dh) ;
		if (t.sf)
		{	char why [128] ;
			if (sf_verif_check_invariants (t.sf, why, sizeof (why)))
				viol (t, "inv", why, std::string ("after ") + r.api) ;
			Digest d = digest (t) ;
			if (d.ok)
			{	int B = t.fmt ? block_frames (*t.fmt, t.ch, t.rate) : 1 ;
				auto bucket = [&] (int64_t p) -> uint64_t { if (B <= 1) return p == 0 ? 0 : 1 ; int64_t m = p % B ; return m == 0 ? 0 : m == 1 ? 1 : m == B - 1 ? 2 : 3 ; } ;
				uint64_t s = 0 ;
				s = s * 131 + (uint64_t) (d.v [DG_FORMAT] & 0x0fffffff) ;
				s = s * 131 + (uint64_t) d.v [DG_MODE] ; s = s * 131 + (uint64_t) d.v [DG_LAST_OP] ; s = s * 131 + (uint64_t) d.v [DG_HAVE_WRITTEN] ;
				s = s * 131 + bucket (d.v [DG_READ_CURRENT]) ; s = s * 131 + bucket (d.v [DG_WRITE_CURRENT]) ;
				s = s * 131 + (uint64_t) (d.v [DG_READ_CURRENT] >= d.v [DG_FRAMES]) ;
				s = s * 131 + (uint64_t) (d.v [DG_ERROR] == 0 ? 0 : d.v [DG_ERROR] < 5 ? 1 : 2) ;
				s = s * 131 + (uint64_t) d.v [DG_AUTO_HEADER] ; s = s * 131 + (uint64_t) d.v [DG_STR_COUNT] ;
				s = s * 131 + (uint64_t) (d.v [DG_WCHUNKS_USED] + d.v [DG_RCHUNKS_USED] > 20 ? 3 : d.v [DG_WCHUNKS_USED] + d.v [DG_RCHUNKS_USED] > 0) ;
				s = s * 131 + (uint64_t) (d.v [DG_HEADER_LEN] / 4096) ;
				res.states.insert (s) ;
			}
		}
	}

	SimFileP store_file (const std::string &name) { return os.file ("/sim/cwd/" + name, true) ; }

	// ---- open
	void op_open (Task &t, const J &op, Rec &r, bool reopen)
	{	if (t.sf) { Rec rc ; do_close (t, rc) ; }
		std::string mode = op.gets ("mode", "r") ;
		std::string route = op.gets ("route", t.route.empty () ? plan.at ("cfg").gets ("route", "vio") : t.route) ;
		const J &cfg = plan.at ("cfg") ;
		std::string fname = op.gets ("fmt", cfg.gets ("fmt", "WAV/PCM_16/FILE")) ;
		const Fmt *f = find_format_name (fname) ;
		if (!f) { r.skipped = true ; return ; }
		if (needs_path_route (*f) && route != "path" && !op.geti ("force_route", 0)) route = "path" ;
		t.fmt = f ; t.route = route ;
		t.store = op.gets ("file", t.store.empty () ? "f" + std::to_string (t.id) + ".dat" : t.store) ;
		t.ch = (int) op.geti ("ch", cfg.geti ("ch", 1)) ;
		t.rate = (int) op.geti ("sr", cfg.geti ("sr", 44100)) ;
		if (op.has ("data")) t.data = data_desc_from (op.at ("data")) ;
		else if (cfg.has ("data")) t.data = data_desc_from (cfg.at ("data")) ;
		t.mode = mode == "r" ? SFM_READ : mode == "w" ? SFM_WRITE : SFM_RDWR ;
		memset (&t.info, 0, sizeof (t.info)) ;
		SimFileP file = store_file (t.store) ;
		StoreModel &m = sm [t.store] ;
		bool raw_like = f->major == SF_FORMAT_RAW ;
		if (t.mode != SFM_READ || raw_like)
		{	t.info.format = f->format ; t.info.channels = t.ch ; t.info.samplerate = t.rate ;
			t.info.frames = op.geti ("frames", 0) ;
		}
		if (t.mode == SFM_READ && !raw_like && op.geti ("dirty_info", 0))
		{	// stale caller SF_INFO must not matter in read mode (format must be zero as documented)
			t.info.channels = 77 ; t.info.samplerate = 1234 ; t.info.frames = op.geti ("frames", 99) ;
		}
		if (t.mode == SFM_WRITE)
		{	file->data.clear () ;
			m = StoreModel () ;
		}
		int64_t bud = budget_for (t, 0) ;
		r.api = "open:" + route + ":" + mode ;
		os.begin_op (t.id, (int) t.pc, "sf_open", bud) ;
		GUARD (t, r) ;
		if (route == "vio")
		{	t.vio = new SimVio ; t.vio->f = file ; t.vio->off = 0 ;
			SF_VIRTUAL_IO v = simos_vio () ;
			t.sf = sf_open_virtual (&v, t.mode, &t.info, t.vio) ;
		}
		else if (route == "path")
		{	std::string p = "/sim/cwd/" + t.store ;
			t.sf = sf_open (p.c_str (), t.mode, &t.info) ;
		}
		else if (route == "embed")
		{	// descriptor positioned at the start of a sound file embedded at offset k inside junk(k) || sound || junk(t)
			os.in_lib = false ;
			int64_t k = op.geti ("emb_k", 123), tl = op.geti ("emb_t", 17) ;
			SimFileP cf = os.file ("/sim/cwd/" + t.store + ".emb", true) ;
			cf->data.clear () ;
			for (int64_t b = 0 ; b < k ; b++) cf->data.push_back ((uint8_t) mix3 (key, 0xe3b, (uint64_t) b)) ;
			if (t.mode == SFM_READ || t.mode == SFM_RDWR)
			{	cf->data.insert (cf->data.end (), file->data.begin (), file->data.end ()) ;
				for (int64_t b = 0 ; b < tl ; b++) cf->data.push_back ((uint8_t) mix3 (key, 0xe3c, (uint64_t) b)) ;
			}
			cf->min_read = cf->max_read_end = cf->min_write = cf->max_write_end = -1 ;
			int64_t wt = 0 ;
			if (t.mode == SFM_WRITE)
			{	// write: existing bytes may also follow the descriptor position (emb_wt of them); the new sound file belongs after
				// everything that is already in the container, whatever the position of the descriptor
				wt = op.geti ("emb_wt", 0) ;
				for (int64_t b = 0 ; b < wt ; b++) cf->data.push_back ((uint8_t) mix3 (key, 0xe3b, (uint64_t) (k + b))) ;
			}
			t.emb_k = k + wt ; t.emb_len = (int64_t) file->data.size () ; t.emb_file = cf ;
			t.emb_before.clear () ; if (t.mode == SFM_RDWR) t.emb_before = cf->data ;
			t.fd = os.open_fd (cf, t.mode == SFM_READ ? O_RDONLY : O_RDWR, false) ;
			os.fds [t.fd].off = k ;
			t.close_desc = op.geti ("close_desc", 1) != 0 ;
			os.in_lib = true ;
			t.sf = sf_open_fd (t.fd, t.mode, &t.info, t.close_desc ? 1 : 0) ;
		}
		else if (route == "fifo")
		{	// non-seekable pipe preloaded with the store's bytes, delivered under a seeded chunking schedule
			os.in_lib = false ;
			SimFileP pf = os.file ("/sim/cwd/" + t.store + ".fifo", true) ;
			pf->is_fifo = true ; pf->data = file->data ; pf->fifo_pos = 0 ; pf->fifo_k = 0 ; pf->fifo_chunks.clear () ;
			const J &cj = op.at ("chunks") ; for (size_t k = 0 ; k < cj.size () ; k++) pf->fifo_chunks.push_back ((int) cj [k].num ()) ;
			t.fd = os.open_fd (pf, t.mode == SFM_READ ? O_RDONLY : O_WRONLY, false) ;
			t.close_desc = true ;
			os.in_lib = true ;
			t.sf = sf_open_fd (t.fd, t.mode, &t.info, 1) ;
		}
		else if (route == "stdio" && t.mode != SFM_RDWR)
		{	// the path "-": standard input or standard output, here redirected from / to the store as a shell would do it
			os.in_lib = false ;
			t.fd = os.bind_fd (t.mode == SFM_READ ? 0 : 1, file, t.mode == SFM_READ ? O_RDONLY : (O_WRONLY | O_CREAT | O_TRUNC)) ;
			t.close_desc = true ;
			os.in_lib = true ;
			t.sf = sf_open ("-", t.mode, &t.info) ;
		}
		else	// fd, fdnc
		{	os.in_lib = false ;
			int fl = t.mode == SFM_READ ? O_RDONLY : t.mode == SFM_WRITE ? (O_WRONLY | O_CREAT | O_TRUNC) : (O_RDWR | O_CREAT) ;
			t.fd = os.open_fd (file, fl, false) ;
			t.close_desc = route != "fdnc" ;
			os.in_lib = true ;
			t.sf = sf_open_fd (t.fd, t.mode, &t.info, t.close_desc ? 1 : 0) ;
		}
		r.ret = t.sf ? 1 : 0 ;
		r.err = sf_error (t.sf) ;
		Rec dummy ;
		r.dh = t.sf ? (uint64_t) t.info.frames * 1000003ULL ^ (uint64_t) t.info.channels * 7919ULL ^ (uint64_t) t.info.samplerate * 104729ULL ^ (uint64_t) t.info.format : 0 ;
		after_call (t, r) ;
		std::string expect = op.gets ("expect", "ok") ;
		if (!t.sf)
		{	// failed open: NULL + global error set
			if (r.err == 0) viol (t, "open.null_no_error", "-", "sf_open returned NULL with sf_error(NULL)==0") ;
			else
			{	const char *s = sf_strerror (nullptr) ;
				if (!s || !*s) viol (t, "open.null_no_error", "empty_text", "empty error text") ;
			}
			if (t.vio) { delete t.vio ; t.vio = nullptr ; }
			if (t.fd >= 0)
			{	check_fd_ownership (t, true) ;
				t.fd = -1 ;
			}
			// read/write on a sound file embedded at an offset is refused by the library: the refusal has to leave the container alone
			if (t.emb_file && t.mode == SFM_RDWR && !t.faulted && t.emb_file->data != t.emb_before)
				viol (t, "embed.prefix_touched", "refused_rdwr", "refused embedded read/write open changed bytes of the container") ;
			t.emb_file = nullptr ; t.emb_k = -1 ;
			if (expect == "ok" && !t.faulted && !m.corrupted)
			{	std::string disc = t.mode == SFM_READ ? "read" : t.mode == SFM_WRITE ? "write" : "rdwr" ;
				if (t.mode == SFM_READ && m.written && m.N == 0) disc = "read_empty" ;
				if (t.mode == SFM_READ && !m.written) disc = "read_nofile" ;
				char lg [2048] ; lg [0] = 0 ; sf_command (nullptr, SFC_GET_LOG_INFO, lg, sizeof (lg)) ;
				std::string l = lg ; if (l.size () > 700) l = l.substr (l.size () - 700) ;
				viol (t, "open.fail", disc, std::string ("open failed: ") + sf_strerror (nullptr) + " | log tail: " + l) ;
			}
			t.stop = true ;
			return ;
		}
		if (expect == "fail") viol (t, "open.should_fail", "-", "open succeeded on an input that must be refused") ;
		// a successful open leaves no error behind, neither on the handle nor in the process-wide slot sf_error (NULL) reads
		if (opts.strict && !t.faulted && sf_error (nullptr) != 0)
		{	char eb [160] ; snprintf (eb, sizeof (eb), "successful open (%s) left sf_error (NULL) = %d", route.c_str (), sf_error (nullptr)) ; viol (t, "success.error", "open_global", eb) ; }
		t.stop = false ;
		t.pos_known = true ;
		t.ref.clear () ;
		t.modified_since_open = false ;
		t.auto_on = false ; t.update_requested = false ; t.raw_read_done = false ;
		Digest d = digest (t) ;
		t.seekable = d.ok ? d.v [DG_SEEKABLE] != 0 : t.info.seekable != 0 ;		// sf_open zeroes SF_INFO.seekable in write mode
		t.ch = t.info.channels ;
		t.rd = 0 ;
		t.frames = t.mode == SFM_WRITE ? 0 : t.info.frames ;
		t.wr = t.mode == SFM_RDWR ? t.frames : 0 ;
		// info sanity (C03.info.range)
		if (t.info.channels < 1 || t.info.channels > 1024 || t.info.samplerate < 1 || t.info.frames < 0 || (t.mode == SFM_READ && t.info.sections < 1))
		{	char b [160] ; snprintf (b, sizeof (b), "ch=%d sr=%d frames=%lld sections=%d", t.info.channels, t.info.samplerate, (long long) t.info.frames, t.info.sections) ;
			viol (t, "info.range", "-", b) ;
		}
		{	SF_FORMAT_INFO fi ; fi.format = t.info.format & SF_FORMAT_TYPEMASK ;
			SF_FORMAT_INFO si ; si.format = t.info.format & SF_FORMAT_SUBMASK ;
			// SF_FORMAT_DWVW_N is a named public encoding (AIFF files with an unusual DWVW bit width are read as such) that the format enumeration does not list
			if (sf_command (nullptr, SFC_GET_FORMAT_INFO, &fi, sizeof (fi)) || (sf_command (nullptr, SFC_GET_FORMAT_INFO, &si, sizeof (si)) && (t.info.format & SF_FORMAT_SUBMASK) != SF_FORMAT_DWVW_N))
				viol (t, "info.format_unknown", "-", "format word names no known container/encoding") ;
		}
		if (t.mode == SFM_READ && m.written && m.clean && !m.corrupted && !t.faulted && m.fmt)
			check_reopen_info (t, m, d) ;
		if (t.mode == SFM_RDWR && !reopen && m.written == false)
		{	m.fmt = f ; m.ch = t.ch ; m.rate = t.rate ;
		}
		if (t.mode != SFM_READ)
		{	m.written = true ; m.fmt = f ; m.ch = t.ch ; m.rate = t.rate ;
			int T = stype_from (op.gets ("model", cfg.gets ("model", ""))) ;
			if (op.has ("model") || cfg.has ("model"))
			{	if (t.mode == SFM_WRITE || !m.model_on) { m.model_on = true ; m.T = T ; if (t.mode == SFM_WRITE) { m.val.clear () ; m.known.clear () ; } }
			}
			if (t.mode == SFM_WRITE) m.N = 0 ;
		}
		(void) dummy ;
	}

	void check_reopen_info (Task &t, StoreModel &m, const Digest &)
	{	const Fmt &f = *m.fmt ;
		char b [200] ;
		if (t.info.channels != m.ch)
		{	snprintf (b, sizeof (b), "channels %d, written with %d", t.info.channels, m.ch) ; viol (t, "info.channels", "-", b) ; return ; }
		int got = t.info.format, want = f.format ;
		if ((got & SF_FORMAT_TYPEMASK) != (want & SF_FORMAT_TYPEMASK) && f.major != SF_FORMAT_RAW)
		{	snprintf (b, sizeof (b), "container 0x%x, written 0x%x", got & SF_FORMAT_TYPEMASK, want & SF_FORMAT_TYPEMASK) ; viol (t, "info.container", "-", b) ; return ; }
		if ((got & SF_FORMAT_SUBMASK) != (want & SF_FORMAT_SUBMASK))
		{	snprintf (b, sizeof (b), "encoding 0x%x, written 0x%x", got & SF_FORMAT_SUBMASK, want & SF_FORMAT_SUBMASK) ; viol (t, "info.encoding", "-", b) ; return ; }
		int64_t rm = rate_model (f, m.rate, m.ch) ;
		if (rm >= 0 && t.info.samplerate != rm)
		{	snprintf (b, sizeof (b), "samplerate %d, model %lld (requested %d)", t.info.samplerate, (long long) rm, m.rate) ; viol (t, "info.rate", m.rate >= (1 << 30) ? "rate>=2^30" : m.rate < 10 ? "rate<10" : "-", b) ; return ; }
		int B = block_frames (f, m.ch, m.rate) ;
		int64_t F = t.info.frames, N = m.N ;
		res.notes ["F"] = F ; res.notes ["N"] = N ; res.notes ["B"] = B ;
		bool ok = F >= N && F < N + B ;
		if (!ok && B == 1 && F == N + 1 && pad_frame_possible (f, m.ch, N)) { ok = true ; probe ("pad_frame_seen") ; }
		if (!ok)
		{	const char *disc = F < N ? "F<N" : F == N + 1 ? "F=N+1" : F < N + B ? "N+1<F<N+B" : "F>=N+B" ;
			snprintf (b, sizeof (b), "frames after re-open %lld, written %lld, block %d", (long long) F, (long long) N, B) ;
			viol (t, "frames.range", disc, b) ;
		}
		if (N % B) probe ("partial_final_block") ;
	}

	void check_fd_ownership (Task &t, bool after_failed_open)
	{	auto it = os.fds.find (t.fd) ;
		if (it == os.fds.end ()) return ;
		SimFd &d = it->second ;
		(void) after_failed_open ;
		if (t.close_desc)
		{	if (d.is_open) { viol (t, "fd.not_closed", after_failed_open ? "failed_open" : "close", "descriptor passed with close_desc=1 is still open") ; d.is_open = false ; }
		}
		else
		{	if (!d.is_open) viol (t, "fd.closed_unowned", after_failed_open ? "failed_open" : "close", "descriptor passed with close_desc=0 was closed by the library") ;
			else d.is_open = false ;		// harness closes its own descriptor
		}
		if (d.close_count > 1) viol (t, "fd.double_close", "-", "descriptor closed more than once") ;
	}

	// ---- close
	void do_close (Task &t, Rec &r)
	{	if (!t.sf) { r.skipped = true ; return ; }
		r.api = "close" ;
		{ Digest dd = digest (t) ; if (dd.ok && t.mode != SFM_READ) sm [t.store].dataoffset = dd.v [DG_DATAOFFSET] ; }
		if (t.mode != SFM_READ)
		{	// the writer's own log says when the header buffer refused to grow (100 KiB cap): from then on header items are dropped
			// silently. The history is recorded so that a profile can tell this known limit from anything else that goes wrong.
			static char lg [20000] ; lg [0] = 0 ;
			bool save = os.in_lib ; os.in_lib = true ; sf_command (t.sf, SFC_GET_LOG_INFO, lg, sizeof (lg)) ; os.in_lib = save ;
			if (strstr (lg, "Request for header allocation of")) probe ("writer_header_allocation_denied") ;
		}
		os.begin_op (t.id, (int) t.pc, "sf_close", budget_for (t, 0)) ;
		GUARD (t, r) ;
		int rc = sf_close (t.sf) ;
		t.sf = nullptr ;
		r.ret = rc ; r.err = 0 ;
		after_call (t, r) ;
		if (rc != 0 && !t.faulted && !t.io_failed) viol (t, "close.ret", "-", "sf_close returned non-zero although every underlying operation succeeded") ;
		if (t.vio) { delete t.vio ; t.vio = nullptr ; }
		if (t.fd >= 0) { check_fd_ownership (t, false) ; t.fd = -1 ; }
		if (t.emb_file)
		{	SimFile &cf = *t.emb_file ;
			char b [200] ;
			if (t.mode == SFM_READ)
			{	if (cf.min_read >= 0 && (cf.min_read < t.emb_k || cf.max_read_end > t.emb_k + t.emb_len) && !t.faulted)
				{	snprintf (b, sizeof (b), "embedded read touched bytes [%lld, %lld) of the container, the sound occupies [%lld, %lld)", (long long) cf.min_read, (long long) cf.max_read_end, (long long) t.emb_k, (long long) (t.emb_k + t.emb_len)) ;
					viol (t, "embed.outside_read", cf.min_read < t.emb_k ? "before" : "after", b) ; }
			}
			else
			{	bool touched = false ;
				for (int64_t q = 0 ; q < t.emb_k && q < (int64_t) cf.data.size () ; q++) if (cf.data [q] != (uint8_t) mix3 (key, 0xe3b, (uint64_t) q)) { touched = true ; break ; }
				if ((int64_t) cf.data.size () < t.emb_k) touched = true ;
				if (touched && !t.faulted) viol (t, "embed.prefix_touched", "-", "embedded write changed bytes that precede the sound file in the container") ;
				// the sound file is what follows the existing bytes
				SimFileP f = store_file (t.store) ;
				if (t.mode == SFM_WRITE) f->data.assign (cf.data.begin () + std::min<int64_t> (t.emb_k, (int64_t) cf.data.size ()), cf.data.end ()) ;
			}
			t.emb_file = nullptr ; t.emb_k = -1 ;
		}
		StoreModel &m = sm [t.store] ;
		if (t.mode != SFM_READ)
		{	m.N = t.frames ;
			if (t.faulted || t.io_failed) m.clean = false ;
		}
	}

	// ---- reference decode (one sequential read on a second handle)
	const std::vector<uint64_t> *ensure_ref (Task &t, int T)
	{	auto it = t.ref.find (T) ;
		if (it != t.ref.end ()) return &it->second ;
		std::vector<uint64_t> &out = t.ref [T] ;
		SF_INFO info ; memset (&info, 0, sizeof (info)) ;
		if (t.fmt && t.fmt->major == SF_FORMAT_RAW) { info.format = t.fmt->format ; info.channels = t.ch ; info.samplerate = t.rate ; }
		bool save_trace = os.trace_io_enabled ; int save_task = os.cur_task ;
		os.trace_io_enabled = false ; os.cur_task = -1 ; os.in_lib = true ; os.op_budget = 0 ;
		SimVio v ; v.f = store_file (t.store) ; v.off = 0 ;
		SF_VIRTUAL_IO vio = simos_vio () ;
		SNDFILE *h ;
		if (t.route == "path" && t.fmt && needs_path_route (*t.fmt)) h = sf_open (("/sim/cwd/" + t.store).c_str (), SFM_READ, &info) ;
		else h = sf_open_virtual (&vio, SFM_READ, &info, &v) ;
		if (h)
		{	int64_t items = info.frames * info.channels ;
			if (items > 0 && items < (1 << 26))
			{	void *buf = malloc ((size_t) items * stype_size (T)) ;
				sf_count_t got = 0 ;
				switch (T)
				{	case T_SHORT : got = sf_readf_short (h, (short *) buf, info.frames) ; break ;
					case T_INT : got = sf_readf_int (h, (int *) buf, info.frames) ; break ;
					case T_FLOAT : got = sf_readf_float (h, (float *) buf, info.frames) ; break ;
					default : got = sf_readf_double (h, (double *) buf, info.frames) ; break ;
				}
				out.resize ((size_t) (got * info.channels)) ;
				for (int64_t k = 0 ; k < got * info.channels ; k++) out [k] = item_bits (buf, T, k) ;
				free (buf) ;
			}
			sf_close (h) ;
		}
		os.in_lib = false ; os.trace_io_enabled = save_trace ; os.cur_task = save_task ;
		return &out ;
	}

	// ---- read
	void op_read (Task &t, const J &op, Rec &r)
	{	if (!t.sf) { r.skipped = true ; return ; }
		int T = stype_from (op.gets ("T", plan.at ("cfg").gets ("T", "short"))) ;
		bool fr = op.geti ("fr", 0) != 0 ;
		int64_t n = op.geti ("n", 1) ;		// frames (or bytes/blockwidth units for raw)
		if (n < 0) n = 0 ;
		int ch = t.ch > 0 ? t.ch : 1 ;
		Digest d0 = digest (t) ;
		int64_t unit = 1 ;	// items per frame in the call's own unit
		int64_t asked, bytes ;
		if (T == T_RAW)
		{	int64_t bw = d0.ok ? d0.v [DG_BLOCKWIDTH] : 0 ;
			if (bw <= 0 || t.fmt == nullptr || t.fmt->block_codec) { r.skipped = true ; return ; }
			asked = n * bw ; bytes = asked ; unit = bw ;
		}
		else
		{	asked = fr ? n : n * ch ; bytes = n * ch * stype_size (T) ; unit = fr ? 1 : ch ; }
		if (bytes > (64 << 20)) { r.skipped = true ; return ; }
		uint8_t *buf = (uint8_t *) malloc (bytes > 0 ? (size_t) bytes : 1) ;
		memset (buf, 0xA5, bytes > 0 ? (size_t) bytes : 1) ;
		r.api = std::string (T == T_RAW ? "read_raw" : fr ? "readf_" : "read_") + (T == T_RAW ? "" : stype_name (T)) ;
		os.begin_op (t.id, (int) t.pc, "sf_read", budget_for (t, bytes)) ;
		GUARD (t, r) ;
		sf_count_t got = 0 ;
		switch (T)
		{	case T_SHORT : got = fr ? sf_readf_short (t.sf, (short *) buf, n) : sf_read_short (t.sf, (short *) buf, asked) ; break ;
			case T_INT : got = fr ? sf_readf_int (t.sf, (int *) buf, n) : sf_read_int (t.sf, (int *) buf, asked) ; break ;
			case T_FLOAT : got = fr ? sf_readf_float (t.sf, (float *) buf, n) : sf_read_float (t.sf, (float *) buf, asked) ; break ;
			case T_DOUBLE : got = fr ? sf_readf_double (t.sf, (double *) buf, n) : sf_read_double (t.sf, (double *) buf, asked) ; break ;
			default : got = sf_read_raw (t.sf, buf, asked) ; break ;
		}
		r.ret = got ; r.err = sf_error (t.sf) ;
		int64_t gitems = T == T_RAW ? got : (fr ? got * ch : got) ;
		if (T == T_RAW && got > 0) t.raw_read_done = true ;
		if (got > 0 && got <= asked) r.dh = fnv1a (buf, (size_t) (T == T_RAW ? got : gitems * stype_size (T))) ;
		if (op.geti ("keep", 0) && got > 0 && got <= asked && T != T_RAW)
		{	std::vector<uint64_t> &kv = res.kept [t.id] ;
			for (int64_t k = 0 ; k < gitems ; k++) kv.push_back (item_bits (buf, T, k)) ;
		}
		after_call (t, r) ;
		Digest d1 = digest (t) ;
		char b [256] ;
		bool wrong_mode = t.mode == SFM_WRITE ;
		do
		{	if (t.stop) break ;
			if (got < 0 || got > asked)
			{	snprintf (b, sizeof (b), "returned %lld for request %lld", (long long) got, (long long) asked) ; viol (t, "read.range", got < 0 ? "negative" : "gt_requested", b) ; break ; }
			if (got % unit)
			{	if (t.faulted || sm [t.store].corrupted) probe ("partial_frame_after_fault") ;
				else { snprintf (b, sizeof (b), "returned %lld items, not a whole number of %d-channel frames", (long long) got, ch) ; viol (t, "read.whole_frames", "-", b) ; break ; }
			}
			int64_t gframes = got / unit ;
			if (d0.ok && d1.ok && d1.v [DG_READ_CURRENT] - d0.v [DG_READ_CURRENT] != gframes && !wrong_mode)
			{	snprintf (b, sizeof (b), "read position moved by %lld, call returned %lld frames", (long long) (d1.v [DG_READ_CURRENT] - d0.v [DG_READ_CURRENT]), (long long) gframes) ;
				viol (t, "read.pos", "delta", b) ; break ; }
			if (wrong_mode) break ;
			if (!t.faulted && opts.strict && t.pos_known)
			{	int64_t F = t.frames ;
				int64_t expect = std::min (n, std::max<int64_t> (0, F - t.rd)) ;
				if (gframes < expect)
				{	int B = t.fmt ? block_frames (*t.fmt, t.ch, t.rate) : 1 ;
					const char *disc = gframes == 0 && t.rd == 0 ? "nothing" : (B > 1 && (F - (t.rd + gframes)) < B) ? "short_by_last_block" : "other" ;
					snprintf (b, sizeof (b), "at frame %lld of %lld asked %lld frames, got %lld (err %d)", (long long) t.rd, (long long) F, (long long) n, (long long) gframes, r.err) ;
					viol (t, "read.short_not_eof", disc, b) ; t.rd += gframes ; break ; }
				if (gframes > expect)
				{	snprintf (b, sizeof (b), "at frame %lld of %lld asked %lld frames, got %lld", (long long) t.rd, (long long) F, (long long) n, (long long) gframes) ;
					viol (t, "read.beyond_eof", "-", b) ; t.rd += gframes ; break ; }
				if (expect == 0 && n > 0 && T != T_RAW)
				{	probe ("read_at_eof") ;
					bool allz = true ; for (int64_t k = 0 ; k < bytes ; k++) if (buf [k]) { allz = false ; break ; }
					if (!allz) { viol (t, "read.eof_zero", "-", "read at end of data did not zero-fill the requested region") ; break ; }
					if (r.err != 0) { snprintf (b, sizeof (b), "read at end of data set error %d", r.err) ; viol (t, "read.eof_error", "-", b) ; break ; }
				}
				if (r.err != 0 && got > 0) { snprintf (b, sizeof (b), "successful read left sf_error=%d", r.err) ; viol (t, "success.error", "read", b) ; break ; }
				if (d1.ok && d1.v [DG_READ_CURRENT] != t.rd + gframes)
				{	snprintf (b, sizeof (b), "read position %lld, model %lld", (long long) d1.v [DG_READ_CURRENT], (long long) (t.rd + gframes)) ; viol (t, "read.pos", "abs", b) ; break ; }
				if (n > 0 && expect < n) probe ("read_larger_than_remaining") ;
				// data oracles
				if (T != T_RAW && gitems > 0)
				{	StoreModel &m = sm [t.store] ;
					int64_t base = t.rd * ch ;
					if (m.model_on && m.T == T && !m.corrupted && m.clean)
					{	int64_t lim = std::min<int64_t> ((int64_t) m.val.size (), base + gitems) ;
						for (int64_t k = base ; k < lim ; k++)
						{	if (!m.known [k]) continue ;
							uint64_t have = item_bits (buf, T, k - base) ;
							if (have != m.val [k])
							{	int B = block_frames (*t.fmt, t.ch, t.rate) ;
								int64_t fr_i = k / ch, N = (int64_t) m.val.size () / ch ;
								const char *disc = fr_i >= (N / B) * B && B > 1 ? "last_partial_block" : fr_i < B && B > 1 ? "first_block" : fr_i == 0 ? "first_frame" : fr_i == N - 1 ? "last_frame" : "interior" ;
								snprintf (b, sizeof (b), "item %lld (frame %lld ch %lld of %lld frames): read 0x%llx, written 0x%llx", (long long) k, (long long) fr_i, (long long) (k % ch), (long long) N, (unsigned long long) have, (unsigned long long) m.val [k]) ;
								std::string dsc = disc ;
								if (m.ieee_replace || (d0.ok && d0.v [DG_IEEE_REPLACE]))
								{	// portable IEEE codec in use: say what kind of value it got wrong
									dsc = "ieee_replace" ;
									uint64_t w = m.val [k] ;
									bool dbl = T == T_DOUBLE ;
									uint64_t ex = dbl ? (w >> 52) & 0x7ff : (w >> 23) & 0xff, man = dbl ? w & 0xfffffffffffffULL : w & 0x7fffff ;
									if ((T == T_FLOAT || T == T_DOUBLE) && ex == 0 && man == 0) dsc += "+zero_sign" ;
									else if ((T == T_FLOAT || T == T_DOUBLE) && ex == 0) dsc += "+denormal" ;
									else if (T == T_FLOAT || T == T_DOUBLE)
									{	double x ; if (dbl) memcpy (&x, &w, 8) ; else { uint32_t u = (uint32_t) w ; float fl ; memcpy (&fl, &u, 4) ; x = fl ; }
										if (fabs (x) < 1e-30) dsc += "+below_1e-30" ;
									}
								}
								viol (t, "data.model", dsc + (ch >= 256 ? "+ch>=256" : ""), b) ; break ;
							}
						}
						if (t.stop) break ;
						probe ("model_items_compared", (uint64_t) std::max<int64_t> (0, lim - base)) ;
					}
					if (op.geti ("ref", plan.at ("cfg").geti ("ref", 0)) && t.mode == SFM_READ)
					{	const std::vector<uint64_t> *S = ensure_ref (t, T) ;
						int64_t lim = std::min<int64_t> ((int64_t) S->size (), base + gitems) ;
						if ((int64_t) S->size () < base + gitems)
						{	snprintf (b, sizeof (b), "sequential reference delivered %zu items, this read reached item %lld", S->size (), (long long) (base + gitems)) ;
							viol (t, "data.ref", "ref_shorter", b) ; break ; }
						for (int64_t k = base ; k < lim ; k++)
						{	uint64_t have = item_bits (buf, T, k - base) ;
							if (have != (*S) [k])
							{	int B = block_frames (*t.fmt, t.ch, t.rate) ;
								int64_t fr_i = k / ch ;
								std::string disc = (B > 1 && fr_i >= (t.frames / B) * B) ? "last_partial_block" : (fr_i == t.rd ? "first_after_position" : "interior") ;
								// ALAC counts frames exactly but decodes in packets of 4096: say whether the frame lies in the last packet of the file
								if (t.fmt->sub >= SF_FORMAT_ALAC_16 && t.fmt->sub <= SF_FORMAT_ALAC_32 && t.frames > 0 && fr_i >= ((t.frames - 1) / 4096) * 4096) disc += "+last_packet" ;
								if (t.raw_read_done && (t.fmt->sub == SF_FORMAT_DPCM_8 || t.fmt->sub == SF_FORMAT_DPCM_16)) disc += "+after_raw" ;
								snprintf (b, sizeof (b), "frame %lld ch %lld: got 0x%llx, sequential reference 0x%llx (read started at frame %lld)", (long long) fr_i, (long long) (k % ch), (unsigned long long) have, (unsigned long long) (*S) [k], (long long) t.rd) ;
								viol (t, "data.ref", disc.c_str (), b) ; break ;
							}
						}
						if (t.stop) break ;
						probe ("ref_items_compared", (uint64_t) std::max<int64_t> (0, lim - base)) ;
					}
				}
			}
			t.rd += gframes ;
		} while (0) ;
		free (buf) ;
	}

	// ---- write
	void op_write (Task &t, const J &op, Rec &r)
	{	if (!t.sf) { r.skipped = true ; return ; }
		t.update_requested = false ;		// an explicit update covers what was written before it
		int T = stype_from (op.gets ("T", plan.at ("cfg").gets ("T", "short"))) ;
		bool fr = op.geti ("fr", 0) != 0 ;
		int64_t n = op.geti ("n", 1) ;
		if (n < 0) n = 0 ;
		int ch = t.ch > 0 ? t.ch : 1 ;
		Digest d0 = digest (t) ;
		int64_t asked, bytes, unit ;
		if (T == T_RAW)
		{	int64_t bw = d0.ok ? d0.v [DG_BLOCKWIDTH] : 0 ;
			if (bw <= 0 || t.fmt == nullptr || t.fmt->block_codec) { r.skipped = true ; return ; }
			asked = n * bw ; bytes = asked ; unit = bw ;
		}
		else { asked = fr ? n : n * ch ; bytes = n * ch * stype_size (T) ; unit = fr ? 1 : ch ; }
		if (bytes > (64 << 20)) { r.skipped = true ; return ; }
		if (plan.at ("cfg").geti ("gran", 1) > 1 && n % plan.at ("cfg").geti ("gran", 1))		// see op_seek
		{	// except: a short write as the very last call before close, at the start of a block
			bool last = op.geti ("tail", 0) && t.ops && t.pc + 1 < t.ops->size () && (*t.ops) [t.pc + 1].gets ("op") == "close" && t.wr % plan.at ("cfg").geti ("gran", 1) == 0 && t.wr + n <= t.frames ;
			if (!last) { r.skipped = true ; return ; }
		}
		StoreModel &m = sm [t.store] ;
		if (d0.ok && d0.v [DG_IEEE_REPLACE]) m.ieee_replace = true ;
		DataDesc dd = op.has ("data") ? data_desc_from (op.at ("data")) : t.data ;
		int lz = 0 ;
		if (T != T_RAW && t.fmt) { int l = lossless_lowzero (*t.fmt, T) ; lz = l > 0 ? l : 0 ; }
		if (t.fmt && (t.fmt->is_float || t.fmt->is_double) && op.geti ("normals", plan.at ("cfg").geti ("normals", 0))) dd.normals = true ;
		// float input to integer / companded encodings stays inside the documented [-1, 1] range: behaviour outside it
		// is the subject of the conversion rules (C02, not claimed), not of any property checked here
		if ((T == T_FLOAT || T == T_DOUBLE) && t.fmt && !t.fmt->is_float && !t.fmt->is_double && dd.cls == "extremes") dd.cls = "pm1_edges" ;
		uint8_t *buf = (uint8_t *) malloc (bytes > 0 ? (size_t) bytes : 1) ;
		int64_t items = T == T_RAW ? bytes : n * ch ;
		fill_buffer (buf, T, items, key, t.stream_pos, dd, lz) ;
		uint64_t h0 = fnv1a (buf, (size_t) bytes) ;
		r.api = std::string (T == T_RAW ? "write_raw" : fr ? "writef_" : "write_") + (T == T_RAW ? "" : stype_name (T)) ;
		os.begin_op (t.id, (int) t.pc, "sf_write", budget_for (t, bytes)) ;
		GUARD (t, r) ;
		sf_count_t put = 0 ;
		switch (T)
		{	case T_SHORT : put = fr ? sf_writef_short (t.sf, (short *) buf, n) : sf_write_short (t.sf, (short *) buf, asked) ; break ;
			case T_INT : put = fr ? sf_writef_int (t.sf, (int *) buf, n) : sf_write_int (t.sf, (int *) buf, asked) ; break ;
			case T_FLOAT : put = fr ? sf_writef_float (t.sf, (float *) buf, n) : sf_write_float (t.sf, (float *) buf, asked) ; break ;
			case T_DOUBLE : put = fr ? sf_writef_double (t.sf, (double *) buf, n) : sf_write_double (t.sf, (double *) buf, asked) ; break ;
			default : put = sf_write_raw (t.sf, buf, asked) ; break ;
		}
		r.ret = put ; r.err = sf_error (t.sf) ;
		r.dh = h0 ;
		after_call (t, r) ;
		Digest d1 = digest (t) ;
		char b [256] ;
		bool wrong_mode = t.mode == SFM_READ ;
		int64_t pframes = 0 ;
		do
		{	if (fnv1a (buf, (size_t) bytes) != h0) { viol (t, "write.buffer_modified", "-", "the caller's (const) buffer was modified by the write call") ; break ; }
			if (t.stop) break ;
			if (put < 0 || put > asked)
			{	snprintf (b, sizeof (b), "returned %lld for request %lld", (long long) put, (long long) asked) ; viol (t, "write.range", put < 0 ? "negative" : "gt_requested", b) ; break ; }
			pframes = put / unit ;
			if (wrong_mode) break ;
			if (d0.ok && d1.ok && d1.v [DG_WRITE_CURRENT] - d0.v [DG_WRITE_CURRENT] != pframes)
			{	snprintf (b, sizeof (b), "write position moved by %lld, call returned %lld frames", (long long) (d1.v [DG_WRITE_CURRENT] - d0.v [DG_WRITE_CURRENT]), (long long) pframes) ;
				viol (t, "write.pos", "delta", b) ; break ; }
			if (put != asked)
			{	if (!t.faulted && opts.strict)
				{	snprintf (b, sizeof (b), "wrote %lld of %lld with no I/O failure (err %d: %s)", (long long) put, (long long) asked, r.err, sf_error_number (r.err)) ;
					viol (t, "write.count", put == 0 ? "zero" : "short", b) ; break ; }
				t.io_failed = true ;
			}
			if (!t.faulted && opts.strict && t.pos_known)
			{	if (r.err != 0 && put == asked) { snprintf (b, sizeof (b), "successful write left sf_error=%d", r.err) ; viol (t, "success.error", "write", b) ; break ; }
				if (d1.ok && d1.v [DG_WRITE_CURRENT] != t.wr + pframes)
				{	snprintf (b, sizeof (b), "write position %lld, model %lld", (long long) d1.v [DG_WRITE_CURRENT], (long long) (t.wr + pframes)) ; viol (t, "write.pos", "abs", b) ; break ; }
				int64_t nf = std::max (t.frames, t.wr + pframes) ;
				if (d1.ok && d1.v [DG_FRAMES] != nf)
				{	snprintf (b, sizeof (b), "frame count %lld, model %lld", (long long) d1.v [DG_FRAMES], (long long) nf) ; viol (t, "write.frames", "-", b) ; break ; }
			}
		} while (0) ;
		if (!wrong_mode && put >= 0 && put <= asked)
		{	pframes = put / unit ;
			if (m.model_on && T == m.T && T != T_RAW)
			{	int64_t base = t.wr * ch, need = (t.wr + pframes) * ch ;
				if ((int64_t) m.val.size () < need) { m.val.resize ((size_t) need, 0) ; m.known.resize ((size_t) need, 0) ; }
				for (int64_t k = 0 ; k < pframes * ch ; k++) { m.val [base + k] = item_bits (buf, T, k) ; m.known [base + k] = 1 ; }
			}
			else if (m.model_on && pframes > 0)
			{	int64_t base = t.wr * ch, need = (t.wr + pframes) * ch ;
				if ((int64_t) m.val.size () < need) { m.val.resize ((size_t) need, 0) ; m.known.resize ((size_t) need, 0) ; }
				for (int64_t k = 0 ; k < pframes * ch ; k++) m.known [base + k] = 0 ;
			}
			t.wr += pframes ;
			if (t.wr > t.frames) t.frames = t.wr ;
			t.stream_pos += items ;
			t.modified_since_open = true ;
			if (bytes > 8192) probe ("request_crossed_staging_buffer") ;
		}
		free (buf) ;
	}

	// ---- seek
	void op_seek (Task &t, const J &op, Rec &r)
	{	if (!t.sf) { r.skipped = true ; return ; }
		int64_t off = op.geti ("off", 0) ;
		int whence = (int) op.geti ("whence", 0) ;
		int flag = (int) op.geti ("flag", 0) ;
		{	// block-aligned sessions (cfg.gran): a seek that would put the write pointer inside a block is not part of the plan space
			// (it can only appear when the minimiser edits offsets); it is skipped so that a minimised plan stays inside the model
			int64_t gran = plan.at ("cfg").geti ("gran", 1) ;
			if (gran > 1 && t.mode == SFM_RDWR && flag != SFM_READ)
			{	int64_t base = whence == SEEK_SET ? 0 : whence == SEEK_END ? t.frames : t.wr ;
				if ((base + off) % gran) { r.skipped = true ; return ; }
			}
		}
		r.api = "seek" ;
		os.begin_op (t.id, (int) t.pc, "sf_seek", budget_for (t, 0)) ;
		GUARD (t, r) ;
		sf_count_t got = sf_seek (t.sf, off, whence | flag) ;
		r.ret = got ; r.err = sf_error (t.sf) ; r.dh = (uint64_t) off * 31 + whence + flag * 7 ;
		after_call (t, r) ;
		if (t.stop) return ;
		Digest d1 = digest (t) ;
		char b [256] ;
		bool flag_bad = (flag == SFM_WRITE && t.mode == SFM_READ) || (flag == SFM_READ && t.mode == SFM_WRITE) ;
		bool whence_bad = whence < 0 || whence > 2 ;
		if (got == -1 && r.err == 0) { viol (t, "seek.fail_no_error", "-", "sf_seek returned -1 with sf_error==0") ; return ; }
		if (got >= 0 && r.err != 0 && !t.faulted && opts.strict) { viol (t, "success.error", "seek", "successful seek left sf_error != 0") ; return ; }
		if (!opts.strict || t.faulted || !t.pos_known) { if (got < -1) viol (t, "seek.ret", "lt_minus1", "sf_seek returned a value below -1") ; if (got >= 0) sync_pos (t, d1) ; return ; }
		if (!t.seekable || flag_bad || whence_bad)
		{	if (got != -1) { snprintf (b, sizeof (b), "seek that must fail (seekable=%d flag=%d whence=%d) returned %lld", t.seekable, flag, whence, (long long) got) ; viol (t, "seek.invalid_accepted", "-", b) ; }
			return ;
		}
		int64_t base1 = 0, base2 = 0 ;	// candidate bases (ambiguity rule)
		int which = flag ? flag : t.mode ;
		if (whence == SEEK_SET) base1 = base2 = 0 ;
		else if (whence == SEEK_END) base1 = base2 = t.frames ;
		else
		{	if (which == SFM_READ) base1 = base2 = t.rd ;
			else if (which == SFM_WRITE) base1 = base2 = t.wr ;
			else { base1 = t.rd ; base2 = t.wr ; }
		}
		int64_t t1 = base1 + off, t2 = base2 + off ;
		auto valid = [&] (int64_t tg) { return t.mode == SFM_READ ? (tg >= 0 && tg <= t.frames) : tg >= 0 ; } ;
		if (!valid (t1) && !valid (t2))
		{	if (got != -1) { snprintf (b, sizeof (b), "out-of-range seek to %lld (frames %lld) returned %lld", (long long) t1, (long long) t.frames, (long long) got) ; viol (t, "seek.invalid_accepted", "range", b) ; }
			else probe ("seek_out_of_range_refused") ;
			return ;
		}
		if (got == -1)
		{	// permitted by the text (−1 with an error set); position becomes unknown to the model
			// a read handle keeps reporting a position (what a zero-offset SEEK_CUR returns): the reads that follow are held to it
			probe ("valid_seek_refused") ;
			if (t.mode != SFM_READ) t.pos_known = false ;
			sync_pos (t, d1) ;
			return ;
		}
		if (got != t1 && got != t2)
		{	snprintf (b, sizeof (b), "seek(off=%lld, whence=%d, flag=%d) returned %lld, requested absolute position %lld", (long long) off, whence, flag, (long long) got, (long long) t1) ;
			viol (t, "seek.ret", "wrong_position", b) ; return ;
		}
		if (which == SFM_READ) t.rd = got ;
		else if (which == SFM_WRITE) t.wr = got ;
		else { t.rd = got ; t.wr = got ; }
		if (d1.ok)
		{	if ((which == SFM_READ || which == SFM_RDWR) && d1.v [DG_READ_CURRENT] != t.rd)
			{	snprintf (b, sizeof (b), "read position %lld after seek, expected %lld", (long long) d1.v [DG_READ_CURRENT], (long long) t.rd) ; viol (t, "seek.pos", "read", b) ; return ; }
			if ((which == SFM_WRITE || which == SFM_RDWR) && d1.v [DG_WRITE_CURRENT] != t.wr)
			{	snprintf (b, sizeof (b), "write position %lld after seek, expected %lld", (long long) d1.v [DG_WRITE_CURRENT], (long long) t.wr) ; viol (t, "seek.pos", "write", b) ; return ; }
			if (flag == SFM_READ && t.mode == SFM_RDWR && d1.v [DG_WRITE_CURRENT] != t.wr)
			{	viol (t, "seek.pos", "read_flag_moved_write", "SFM_READ seek moved the write position") ; return ; }
			if (flag == SFM_WRITE && t.mode == SFM_RDWR && d1.v [DG_READ_CURRENT] != t.rd)
			{	viol (t, "seek.pos", "write_flag_moved_read", "SFM_WRITE seek moved the read position") ; return ; }
		}
		int B = t.fmt ? block_frames (*t.fmt, t.ch, t.rate) : 1 ;
		if (B > 1 && got % B) probe ("seek_mid_block") ;
		if (B > 1 && got >= (t.frames / B) * B && got < t.frames) probe ("seek_into_last_partial_block") ;
		if (got > 0 && got < t.frames) probe ("seek_interior") ;
	}

	void sync_pos (Task &t, const Digest &d)
	{	if (!d.ok) return ;
		t.rd = d.v [DG_READ_CURRENT] ; t.wr = d.v [DG_WRITE_CURRENT] ; t.frames = d.v [DG_FRAMES] ;
	}

	// ---- simple commands
	void op_cmd (Task &t, const J &op, Rec &r)
	{	if (!t.sf) { r.skipped = true ; return ; }
		std::string id = op.gets ("id") ;
		int64_t arg = op.geti ("arg", 0) ;
		r.api = "cmd:" + id ;
		os.begin_op (t.id, (int) t.pc, "sf_command", budget_for (t, 0)) ;
		GUARD (t, r) ;
		int rc = 0 ;
		if (id == "update_header") { rc = sf_command (t.sf, SFC_UPDATE_HEADER_NOW, nullptr, 0) ; t.update_requested = true ; }
		else if (id == "auto_header") { rc = sf_command (t.sf, SFC_SET_UPDATE_HEADER_AUTO, nullptr, arg ? SF_TRUE : SF_FALSE) ; t.auto_on = arg != 0 ; }
		else if (id == "clipping") rc = sf_command (t.sf, SFC_SET_CLIPPING, nullptr, arg ? SF_TRUE : SF_FALSE) ;
		else if (id == "norm_float") rc = sf_command (t.sf, SFC_SET_NORM_FLOAT, nullptr, arg ? SF_TRUE : SF_FALSE) ;
		else if (id == "norm_double") rc = sf_command (t.sf, SFC_SET_NORM_DOUBLE, nullptr, arg ? SF_TRUE : SF_FALSE) ;
		else if (id == "ieee_replace") rc = sf_command (t.sf, SFC_TEST_IEEE_FLOAT_REPLACE, nullptr, arg ? SF_TRUE : SF_FALSE) ;
		else if (id == "peak_chunk") rc = sf_command (t.sf, SFC_SET_ADD_PEAK_CHUNK, nullptr, arg ? SF_TRUE : SF_FALSE) ;
		else if (id == "sync") { sf_write_sync (t.sf) ; rc = 0 ; probe ("write_sync") ; }
		else if (id == "dither")
		{	// dither on write: in this library version the dither stage is a plain copy through a staging buffer, so values are unchanged
			SF_DITHER_INFO di ; memset (&di, 0, sizeof (di)) ; di.type = SFD_WHITE ; di.level = 1.0 ; di.name = "white" ;
			rc = sf_command (t.sf, SFC_SET_DITHER_ON_WRITE, &di, sizeof (di)) ; if (rc == 0) probe ("dither_on_write") ;
		}
		else if (id == "truncate")
		{	sf_count_t v = arg ;
			rc = sf_command (t.sf, SFC_FILE_TRUNCATE, &v, sizeof (v)) ;
			if (rc == 0 && !t.faulted) { t.frames = arg ; if (t.mode == SFM_RDWR) { t.rd = arg ; t.wr = arg ; } else t.wr = arg ;
				StoreModel &m = sm [t.store] ;
				if (m.model_on && (int64_t) m.val.size () > arg * t.ch) { m.val.resize ((size_t) (arg * t.ch)) ; m.known.resize ((size_t) (arg * t.ch)) ; }
				probe ("truncate_ok") ; }
		}
		else { os.end_op () ; r.skipped = true ; return ; }
		r.ret = rc ; r.err = sf_error (t.sf) ;
		after_call (t, r) ;
		if (id == "truncate" && rc != 0 && t.sf)
		{	// SFC_FILE_TRUNCATE seeks first and truncates second: when the second step fails (always over virtual I/O, which has no
			// truncate callback) the positions have moved already. No listed property fixes that state, so follow the handle.
			Digest d = digest (t) ; sync_pos (t, d) ; sm [t.store].model_on = false ;
		}
		if (!t.stop && !t.faulted && opts.strict && id == "truncate" && rc == 0)
		{	Digest d = digest (t) ;
			if (d.ok && (d.v [DG_FRAMES] != t.frames || (t.mode == SFM_RDWR && d.v [DG_READ_CURRENT] != t.rd) || d.v [DG_WRITE_CURRENT] != t.wr))
			{	char b [200] ; snprintf (b, sizeof (b), "after truncate to %lld: frames %lld read %lld write %lld", (long long) arg, (long long) d.v [DG_FRAMES], (long long) d.v [DG_READ_CURRENT], (long long) d.v [DG_WRITE_CURRENT]) ;
				viol (t, "truncate.state", "-", b) ; }
		}
		if (!t.stop && !t.faulted && opts.strict && id == "truncate" && rc != 0 && t.route != "vio") viol (t, "truncate.failed", "-", "SFC_FILE_TRUNCATE failed on the descriptor route") ;
	}

	void op_clock (Task &, const J &op, Rec &r)
	{	r.api = "clock" ; r.skipped = true ;
		if (op.has ("to")) os.clock_off = op.geti ("to") - os.epoch0 ;
		else os.clock_off += op.geti ("jump", 0) ;
	}

	// ------------------------------------------------------------------------------------------
	// metadata, chunks, generic commands, corruption, crash images

	std::string gen_text (int64_t stream, int64_t len, const std::string &cls)
	{	std::string s ;
		for (int64_t k = 0 ; (int64_t) s.size () < len ; k++)
		{	uint64_t h = mix3 (key ^ 0x7e47, (uint64_t) stream, (uint64_t) k) ;
			if (cls == "utf8" && (h & 7) == 0 && (int64_t) s.size () + 2 <= len) { s += (char) (0xc3) ; s += (char) (0x80 + (h >> 8) % 0x3f) ; }
			else if (cls == "crlf" && (h & 15) == 0) s += ((h >> 8) & 1) ? '\n' : '\r' ;
			else s += (char) (0x21 + (h >> 16) % 0x5e) ;
		}
		if ((int64_t) s.size () > len) s.resize ((size_t) len) ;
		return s ;
	}

	void obs (Task &t, const char *kind, const J &val)
	{	J o = J::obj () ; o ["task"] = t.id ; o ["op"] = (long long) t.pc ; o ["kind"] = kind ; o ["v"] = val ;
		res.obs.push_back (o) ;
	}

	static std::string hexs (const void *p, size_t n)
	{	static const char *d = "0123456789abcdef" ; std::string s ; const unsigned char *u = (const unsigned char *) p ;
		for (size_t k = 0 ; k < n ; k++) { s += d [u [k] >> 4] ; s += d [u [k] & 15] ; }
		return s ;
	}

	void op_setstr (Task &t, const J &op, Rec &r)
	{	if (!t.sf) { r.skipped = true ; return ; }
		int type = (int) op.geti ("type", SF_STR_TITLE) ;
		std::string txt = op.has ("text") ? op.gets ("text") : gen_text (op.geti ("stream", type), op.geti ("len", 8), op.gets ("cls", "ascii")) ;
		r.api = "set_string" ;
		os.begin_op (t.id, (int) t.pc, "sf_set_string", budget_for (t, 0)) ;
		GUARD (t, r) ;
		int rc = op.geti ("null", 0) ? sf_set_string (t.sf, type, nullptr) : sf_set_string (t.sf, type, txt.c_str ()) ;
		r.ret = rc ; r.err = sf_error (t.sf) ; r.dh = fnv1a (txt.data (), txt.size ()) + type ;
		after_call (t, r) ;
		J v = J::obj () ; v ["type"] = type ; v ["text"] = txt ; v ["rc"] = rc ; v ["late"] = t.wr > 0 ? 1 : 0 ;
		obs (t, "setstr", v) ;
	}

	void op_getstr (Task &t, const J &op, Rec &r)
	{	if (!t.sf) { r.skipped = true ; return ; }
		r.api = "get_string" ;
		J all = J::obj () ;
		uint64_t h = 0 ;
		os.begin_op (t.id, (int) t.pc, "sf_get_string", budget_for (t, 0)) ;
		GUARD (t, r) ;
		static const int types [] = { SF_STR_TITLE, SF_STR_COPYRIGHT, SF_STR_SOFTWARE, SF_STR_ARTIST, SF_STR_COMMENT, SF_STR_DATE, SF_STR_ALBUM, SF_STR_LICENSE, SF_STR_TRACKNUMBER, SF_STR_GENRE, 0, 0x11, 99 } ;
		for (int ty : types)
		{	if (op.has ("type") && op.geti ("type") != ty) continue ;
			const char *s = sf_get_string (t.sf, ty) ;
			if (s) { all [std::to_string (ty)] = std::string (s) ; h = fnv1a (s, strlen (s), h ^ (uint64_t) ty) ; }
		}
		r.ret = (int64_t) all.size () ; r.err = sf_error (t.sf) ; r.dh = h ;
		after_call (t, r) ;
		obs (t, "getstr", all) ;
	}

	typedef SF_BROADCAST_INFO_VAR (20000) BEXT_BIG ;
	typedef SF_CART_INFO_VAR (20000) CART_BIG ;

	static std::string fld (const char *p, size_t w) { return std::string (p, strnlen (p, w)) ; }
	static J bext_fields (const BEXT_BIG &b)
	{	J v = J::obj () ;
		v ["description"] = fld (b.description, sizeof (b.description)) ; v ["originator"] = fld (b.originator, sizeof (b.originator)) ;
		v ["originator_reference"] = fld (b.originator_reference, sizeof (b.originator_reference)) ; v ["origination_date"] = fld (b.origination_date, sizeof (b.origination_date)) ;
		v ["origination_time"] = fld (b.origination_time, sizeof (b.origination_time)) ; v ["time_reference_low"] = (long long) b.time_reference_low ; v ["time_reference_high"] = (long long) b.time_reference_high ;
		v ["version"] = (int) b.version ; v ["umid"] = hexs (b.umid, sizeof (b.umid)) ; v ["loudness_value"] = (int) b.loudness_value ; v ["loudness_range"] = (int) b.loudness_range ;
		v ["max_true_peak_level"] = (int) b.max_true_peak_level ; v ["max_momentary_loudness"] = (int) b.max_momentary_loudness ; v ["max_shortterm_loudness"] = (int) b.max_shortterm_loudness ;
		return v ;
	}
	static J cart_fields (const CART_BIG &c)
	{	J v = J::obj () ;
		v ["version"] = fld (c.version, sizeof (c.version)) ; v ["title"] = fld (c.title, sizeof (c.title)) ; v ["artist"] = fld (c.artist, sizeof (c.artist)) ; v ["cut_id"] = fld (c.cut_id, sizeof (c.cut_id)) ;
		v ["client_id"] = fld (c.client_id, sizeof (c.client_id)) ; v ["category"] = fld (c.category, sizeof (c.category)) ; v ["classification"] = fld (c.classification, sizeof (c.classification)) ;
		v ["out_cue"] = fld (c.out_cue, sizeof (c.out_cue)) ; v ["start_date"] = fld (c.start_date, sizeof (c.start_date)) ; v ["start_time"] = fld (c.start_time, sizeof (c.start_time)) ;
		v ["end_date"] = fld (c.end_date, sizeof (c.end_date)) ; v ["end_time"] = fld (c.end_time, sizeof (c.end_time)) ; v ["producer_app_id"] = fld (c.producer_app_id, sizeof (c.producer_app_id)) ;
		v ["producer_app_version"] = fld (c.producer_app_version, sizeof (c.producer_app_version)) ; v ["user_def"] = fld (c.user_def, sizeof (c.user_def)) ; v ["url"] = fld (c.url, sizeof (c.url)) ;
		v ["level_reference"] = (long long) c.level_reference ;
		J tm = J::arr () ; for (int k = 0 ; k < 8 ; k++) { tm.push (fld (c.post_timers [k].usage, 4)) ; tm.push ((long long) c.post_timers [k].value) ; } v ["post_timers"] = tm ;
		return v ;
	}

	void fill_field (char *dst, size_t width, int64_t stream, int fill)	// fill: 0 empty, 1 half, 2 full width (no NUL)
	{	memset (dst, 0, width) ;
		size_t n = fill == 0 ? 0 : fill == 1 ? width / 2 : width ;
		std::string s = gen_text (stream, (int64_t) n, "ascii") ;
		memcpy (dst, s.data (), s.size ()) ;
	}

	void op_setbext (Task &t, const J &op, Rec &r)
	{	if (!t.sf) { r.skipped = true ; return ; }
		BEXT_BIG *b = (BEXT_BIG *) calloc (1, sizeof (BEXT_BIG)) ;
		int fill = (int) op.geti ("fill", 1) ; int64_t st = op.geti ("stream", 1) ;
		fill_field (b->description, sizeof (b->description), st + 1, fill) ;
		fill_field (b->originator, sizeof (b->originator), st + 2, fill) ;
		fill_field (b->originator_reference, sizeof (b->originator_reference), st + 3, fill) ;
		fill_field (b->origination_date, sizeof (b->origination_date), st + 4, fill) ;
		fill_field (b->origination_time, sizeof (b->origination_time), st + 5, fill) ;
		// the UMID is a binary field (SMPTE 330M): arbitrary bytes, zero bytes in the middle included
		if (fill) for (size_t k = 0 ; k < sizeof (b->umid) ; k++) b->umid [k] = (char) ((k >= 12 && k < 16) || (fill == 1 && k >= 32) ? 0 : (uint8_t) mix3 (key, (uint64_t) st + 6, k)) ;
		b->time_reference_low = (uint32_t) mix3 (key, st, 7) ; b->time_reference_high = (uint32_t) mix3 (key, st, 8) ;
		b->version = (short) op.geti ("version", 1) ;
		b->loudness_value = (int16_t) mix3 (key, st, 9) ; b->loudness_range = (int16_t) mix3 (key, st, 10) ;
		b->max_true_peak_level = (int16_t) mix3 (key, st, 11) ; b->max_momentary_loudness = (int16_t) mix3 (key, st, 12) ; b->max_shortterm_loudness = (int16_t) mix3 (key, st, 13) ;
		int64_t hl = op.geti ("hist", 0) ; if (hl > 19000) hl = 19000 ; if (hl < 0) hl = 0 ;
		std::string hist = gen_text (st + 20, hl, op.gets ("cls", "ascii")) ;
		memcpy (b->coding_history, hist.data (), hist.size ()) ;
		b->coding_history_size = (uint32_t) hist.size () ;
		size_t sz = offsetof (BEXT_BIG, coding_history) + hist.size () ;
		if (op.has ("datasize")) sz = (size_t) op.geti ("datasize") ;
		// exact-size copy so that any access beyond datasize is an ASan report
		void *ex = malloc (sz ? sz : 1) ; memcpy (ex, b, sz < sizeof (BEXT_BIG) ? sz : sizeof (BEXT_BIG)) ;
		r.api = "cmd:SET_BROADCAST_INFO" ;
		os.begin_op (t.id, (int) t.pc, "sf_command", budget_for (t, 0)) ;
		GUARD (t, r) ;
		int rc = sf_command (t.sf, SFC_SET_BROADCAST_INFO, ex, (int) sz) ;
		r.ret = rc ; r.err = sf_error (t.sf) ; r.dh = fnv1a (ex, sz) ;
		after_call (t, r) ;
		J v = bext_fields (*b) ; v ["rc"] = rc ; v ["hist"] = hist ; v ["late"] = t.wr > 0 ? 1 : 0 ;
		obs (t, "setbext", v) ;
		free (ex) ; free (b) ;
	}

	void op_getbext (Task &t, const J &, Rec &r)
	{	if (!t.sf) { r.skipped = true ; return ; }
		BEXT_BIG *b = (BEXT_BIG *) calloc (1, sizeof (BEXT_BIG)) ;
		r.api = "cmd:GET_BROADCAST_INFO" ;
		os.begin_op (t.id, (int) t.pc, "sf_command", budget_for (t, 0)) ;
		GUARD (t, r) ;
		int rc = sf_command (t.sf, SFC_GET_BROADCAST_INFO, b, sizeof (BEXT_BIG)) ;
		r.ret = rc ; r.err = sf_error (t.sf) ;
		after_call (t, r) ;
		J v = J::obj () ; v ["rc"] = rc ;
		if (rc)
		{	uint32_t hs = b->coding_history_size ; if (hs > 20000) hs = 20000 ;
			J fv = bext_fields (*b) ; for (auto &kv : fv.o) v [kv.first] = kv.second ;
			v ["hist"] = std::string (b->coding_history, strnlen (b->coding_history, hs)) ; v ["hist_size"] = (long long) b->coding_history_size ;
			r.dh = fnv1a (b, offsetof (BEXT_BIG, coding_history) + hs) ;
		}
		obs (t, "getbext", v) ;
		free (b) ;
	}

	void op_setcart (Task &t, const J &op, Rec &r)
	{	if (!t.sf) { r.skipped = true ; return ; }
		CART_BIG *c = (CART_BIG *) calloc (1, sizeof (CART_BIG)) ;
		int fill = (int) op.geti ("fill", 1) ; int64_t st = op.geti ("stream", 1) ;
		memcpy (c->version, "0101", 4) ;
		fill_field (c->title, sizeof (c->title), st + 1, fill) ; fill_field (c->artist, sizeof (c->artist), st + 2, fill) ;
		fill_field (c->cut_id, sizeof (c->cut_id), st + 3, fill) ; fill_field (c->client_id, sizeof (c->client_id), st + 4, fill) ;
		fill_field (c->category, sizeof (c->category), st + 5, fill) ; fill_field (c->classification, sizeof (c->classification), st + 6, fill) ;
		fill_field (c->out_cue, sizeof (c->out_cue), st + 7, fill) ; fill_field (c->start_date, sizeof (c->start_date), st + 8, fill) ;
		fill_field (c->start_time, sizeof (c->start_time), st + 9, fill) ; fill_field (c->end_date, sizeof (c->end_date), st + 10, fill) ;
		fill_field (c->end_time, sizeof (c->end_time), st + 11, fill) ; fill_field (c->producer_app_id, sizeof (c->producer_app_id), st + 12, fill) ;
		fill_field (c->producer_app_version, sizeof (c->producer_app_version), st + 13, fill) ; fill_field (c->user_def, sizeof (c->user_def), st + 14, fill) ;
		fill_field (c->url, sizeof (c->url), st + 15, fill) ;
		c->level_reference = (int32_t) mix3 (key, st, 16) ;
		for (int k = 0 ; k < 8 ; k++) { memcpy (c->post_timers [k].usage, "MRK ", 4) ; c->post_timers [k].value = (int32_t) mix3 (key, st, 30 + k) ; }
		int64_t tl = op.geti ("tag", 0) ; if (tl > 19000) tl = 19000 ; if (tl < 0) tl = 0 ;
		std::string tag = gen_text (st + 40, tl, op.gets ("cls", "ascii")) ;
		memcpy (c->tag_text, tag.data (), tag.size ()) ;
		c->tag_text_size = (uint32_t) tag.size () ;
		size_t sz = offsetof (CART_BIG, tag_text) + tag.size () ;
		if (op.has ("datasize")) sz = (size_t) op.geti ("datasize") ;
		void *ex = malloc (sz ? sz : 1) ; memcpy (ex, c, sz < sizeof (CART_BIG) ? sz : sizeof (CART_BIG)) ;
		r.api = "cmd:SET_CART_INFO" ;
		os.begin_op (t.id, (int) t.pc, "sf_command", budget_for (t, 0)) ;
		GUARD (t, r) ;
		int rc = sf_command (t.sf, SFC_SET_CART_INFO, ex, (int) sz) ;
		r.ret = rc ; r.err = sf_error (t.sf) ; r.dh = fnv1a (ex, sz) ;
		after_call (t, r) ;
		J v = cart_fields (*c) ; v ["rc"] = rc ; v ["tag"] = tag ; v ["late"] = t.wr > 0 ? 1 : 0 ;
		obs (t, "setcart", v) ;
		free (ex) ; free (c) ;
	}

	void op_getcart (Task &t, const J &, Rec &r)
	{	if (!t.sf) { r.skipped = true ; return ; }
		CART_BIG *c = (CART_BIG *) calloc (1, sizeof (CART_BIG)) ;
		r.api = "cmd:GET_CART_INFO" ;
		os.begin_op (t.id, (int) t.pc, "sf_command", budget_for (t, 0)) ;
		GUARD (t, r) ;
		int rc = sf_command (t.sf, SFC_GET_CART_INFO, c, sizeof (CART_BIG)) ;
		r.ret = rc ; r.err = sf_error (t.sf) ;
		after_call (t, r) ;
		J v = J::obj () ; v ["rc"] = rc ;
		if (rc)
		{	uint32_t ts = c->tag_text_size ; if (ts > 20000) ts = 20000 ;
			J fv = cart_fields (*c) ; for (auto &kv : fv.o) v [kv.first] = kv.second ;
			v ["tag"] = std::string (c->tag_text, strnlen (c->tag_text, ts)) ; v ["tag_size"] = (long long) c->tag_text_size ;
			r.dh = fnv1a (c, offsetof (CART_BIG, tag_text) + ts) ;
		}
		obs (t, "getcart", v) ;
		free (c) ;
	}

	void op_setcues (Task &t, const J &op, Rec &r)
	{	if (!t.sf) { r.skipped = true ; return ; }
		int64_t n = op.geti ("count", 3) ; if (n < 0) n = 0 ; if (n > 2000) n = 2000 ;
		size_t sz = sizeof (uint32_t) + (size_t) n * sizeof (SF_CUE_POINT) ;
		uint8_t *raw = (uint8_t *) calloc (1, sz ? sz : 4) ;
		SF_CUES *c = (SF_CUES *) raw ;
		c->cue_count = (uint32_t) n ;
		J pts = J::arr () ;
		int64_t st = op.geti ("stream", 1) ;
		for (int64_t k = 0 ; k < n ; k++)
		{	SF_CUE_POINT *p = (SF_CUE_POINT *) (raw + sizeof (uint32_t) + k * sizeof (SF_CUE_POINT)) ;
			p->indx = (int32_t) (k + 1) ; p->position = (uint32_t) (mix3 (key, st, k) % 100000) ; p->fcc_chunk = 0x61746164 ; p->chunk_start = 0 ; p->block_start = 0 ;
			p->sample_offset = (uint32_t) (mix3 (key, st, 1000 + k) % 100000) ;
			std::string nm = gen_text (st + 2000 + k, (int64_t) (mix3 (key, st, 3000 + k) % 40), "ascii") ;
			memcpy (p->name, nm.data (), nm.size ()) ;
			J pj = J::obj () ; pj ["indx"] = p->indx ; pj ["position"] = (long long) p->position ; pj ["sample_offset"] = (long long) p->sample_offset ; pj ["name"] = nm ; pts.push (pj) ;
		}
		r.api = "cmd:SET_CUE" ;
		os.begin_op (t.id, (int) t.pc, "sf_command", budget_for (t, 0)) ;
		GUARD (t, r) ;
		int rc = sf_command (t.sf, SFC_SET_CUE, raw, (int) sz) ;
		r.ret = rc ; r.err = sf_error (t.sf) ; r.dh = fnv1a (raw, sz) ;
		after_call (t, r) ;
		J v = J::obj () ; v ["rc"] = rc ; v ["cues"] = pts ; v ["late"] = t.wr > 0 ? 1 : 0 ;
		obs (t, "setcues", v) ;
		free (raw) ;
	}

	void op_getcues (Task &t, const J &, Rec &r)
	{	if (!t.sf) { r.skipped = true ; return ; }
		r.api = "cmd:GET_CUE" ;
		os.begin_op (t.id, (int) t.pc, "sf_command", budget_for (t, 0)) ;
		GUARD (t, r) ;
		uint32_t cnt = 0 ;
		int rc0 = sf_command (t.sf, SFC_GET_CUE_COUNT, &cnt, sizeof (cnt)) ;
		J v = J::obj () ; v ["rc_count"] = rc0 ; v ["count"] = (long long) cnt ;
		J pts = J::arr () ;
		int rc = 0 ;
		if (rc0 && cnt <= 100000)
		{	size_t sz = sizeof (uint32_t) + (size_t) cnt * sizeof (SF_CUE_POINT) ;
			uint8_t *raw = (uint8_t *) calloc (1, sz) ;
			rc = sf_command (t.sf, SFC_GET_CUE, raw, (int) sz) ;
			uint32_t got = ((SF_CUES *) raw)->cue_count ; if (got > cnt) got = cnt ;
			for (uint32_t k = 0 ; rc && k < got ; k++)
			{	SF_CUE_POINT *p = (SF_CUE_POINT *) (raw + sizeof (uint32_t) + k * sizeof (SF_CUE_POINT)) ;
				J pj = J::obj () ; pj ["indx"] = p->indx ; pj ["position"] = (long long) p->position ; pj ["sample_offset"] = (long long) p->sample_offset ;
				pj ["name"] = std::string (p->name, strnlen (p->name, sizeof (p->name))) ; pts.push (pj) ;
			}
			r.dh = fnv1a (raw, sz) ;
			free (raw) ;
		}
		{	// the ordinary call: a plain SF_CUES (room for 100 cue points) in an exact-size heap block, whatever the file holds
			SF_CUES *plain = (SF_CUES *) malloc (sizeof (SF_CUES)) ; memset (plain, 0xA5, sizeof (SF_CUES)) ;
			int rc2 = sf_command (t.sf, SFC_GET_CUE, plain, sizeof (SF_CUES)) ;
			v ["rc_plain"] = rc2 ; v ["count_plain"] = (long long) (rc2 ? plain->cue_count : 0) ;
			if (rc2 && plain->cue_count > 100 && !t.stop) viol (t, "cues.count_exceeds_buffer", "-", "SFC_GET_CUE with sizeof (SF_CUES) reports more cue points than the buffer holds") ;
			free (plain) ;
		}
		r.ret = rc ; r.err = sf_error (t.sf) ;
		after_call (t, r) ;
		v ["rc"] = rc ; v ["cues"] = pts ;
		obs (t, "getcues", v) ;
	}

	static J instr_to_json (const SF_INSTRUMENT &i)
	{	J v = J::obj () ;
		v ["gain"] = i.gain ; v ["basenote"] = (int) i.basenote ; v ["detune"] = (int) i.detune ; v ["velocity_lo"] = (int) i.velocity_lo ; v ["velocity_hi"] = (int) i.velocity_hi ;
		v ["key_lo"] = (int) i.key_lo ; v ["key_hi"] = (int) i.key_hi ; v ["loop_count"] = i.loop_count ;
		J l = J::arr () ;
		for (int k = 0 ; k < i.loop_count && k < 16 ; k++) { J x = J::obj () ; x ["mode"] = i.loops [k].mode ; x ["start"] = (long long) i.loops [k].start ; x ["end"] = (long long) i.loops [k].end ; x ["count"] = (long long) i.loops [k].count ; l.push (x) ; }
		v ["loops"] = l ;
		return v ;
	}

	void op_setinstr (Task &t, const J &op, Rec &r)
	{	if (!t.sf) { r.skipped = true ; return ; }
		SF_INSTRUMENT i ; memset (&i, 0, sizeof (i)) ;
		int64_t st = op.geti ("stream", 1) ;
		i.gain = (int) (mix3 (key, st, 1) % 12) ; i.basenote = (char) (mix3 (key, st, 2) % 128) ; i.detune = (char) (mix3 (key, st, 3) % 100) ;
		i.velocity_lo = (char) (mix3 (key, st, 4) % 64) ; i.velocity_hi = (char) (64 + mix3 (key, st, 5) % 64) ; i.key_lo = (char) (mix3 (key, st, 6) % 64) ; i.key_hi = (char) (64 + mix3 (key, st, 7) % 64) ;
		int64_t nl = op.geti ("loops", 1) ; if (nl < 0) nl = 0 ; if (nl > 16) nl = 16 ;
		i.loop_count = (int) nl ;
		for (int k = 0 ; k < nl ; k++)
		{	static const int modes [] = { SF_LOOP_FORWARD, SF_LOOP_BACKWARD, SF_LOOP_ALTERNATING, SF_LOOP_NONE } ;
			i.loops [k].mode = modes [mix3 (key, st, 10 + k) % 3] ; i.loops [k].start = (uint32_t) (mix3 (key, st, 30 + k) % 50000) ;
			i.loops [k].end = i.loops [k].start + 1 + (uint32_t) (mix3 (key, st, 50 + k) % 50000) ; i.loops [k].count = (uint32_t) (mix3 (key, st, 70 + k) % 100) ;
			if (op.geti ("edge", 0))		// boundary values of the 32-bit fields, degenerate and unused loops
				switch (mix3 (key, st, 90 + k) % 10)
				{	case 0 : i.loops [k].start = 0 ; i.loops [k].end = 0 ; break ;
					case 1 : i.loops [k].end = i.loops [k].start ; break ;
					case 2 : i.loops [k].end = 0xFFFFFFFFu ; break ;
					case 3 : i.loops [k].mode = SF_LOOP_NONE ; i.loops [k].start = 0 ; i.loops [k].end = 0 ; i.loops [k].count = 0 ; break ;
					case 4 : i.loops [k].count = 0xFFFFFFFFu ; break ;
					case 5 : i.loops [k].start = 0xFFFFFFFFu ; i.loops [k].end = 0xFFFFFFFFu ; break ;
					default : break ;
				}
		}
		void *ex = malloc (sizeof (i)) ; memcpy (ex, &i, sizeof (i)) ;
		r.api = "cmd:SET_INSTRUMENT" ;
		os.begin_op (t.id, (int) t.pc, "sf_command", budget_for (t, 0)) ;
		GUARD (t, r) ;
		int rc = sf_command (t.sf, SFC_SET_INSTRUMENT, ex, sizeof (i)) ;
		r.ret = rc ; r.err = sf_error (t.sf) ; r.dh = fnv1a (&i, sizeof (i)) ;
		after_call (t, r) ;
		J v = instr_to_json (i) ; v ["rc"] = rc ; v ["late"] = t.wr > 0 ? 1 : 0 ;
		obs (t, "setinstr", v) ;
		free (ex) ;
	}

	void op_getinstr (Task &t, const J &, Rec &r)
	{	if (!t.sf) { r.skipped = true ; return ; }
		SF_INSTRUMENT *i = (SF_INSTRUMENT *) calloc (1, sizeof (SF_INSTRUMENT)) ;
		r.api = "cmd:GET_INSTRUMENT" ;
		os.begin_op (t.id, (int) t.pc, "sf_command", budget_for (t, 0)) ;
		GUARD (t, r) ;
		int rc = sf_command (t.sf, SFC_GET_INSTRUMENT, i, sizeof (*i)) ;
		r.ret = rc ; r.err = sf_error (t.sf) ; if (rc) r.dh = fnv1a (i, sizeof (*i)) ;
		after_call (t, r) ;
		J v = rc ? instr_to_json (*i) : J::obj () ; v ["rc"] = rc ;
		obs (t, "getinstr", v) ;
		free (i) ;
	}

	void op_setchanmap (Task &t, const J &op, Rec &r)
	{	if (!t.sf) { r.skipped = true ; return ; }
		int ch = t.ch > 0 ? t.ch : 1 ;
		int *m = (int *) malloc (sizeof (int) * ch) ;
		J codes = J::arr () ;
		const J &given = op.at ("codes") ;
		for (int k = 0 ; k < ch ; k++)
		{	m [k] = k < (int) given.size () ? (int) given [k].num () : (int) (1 + mix3 (key, op.geti ("stream", 1), k) % (SF_CHANNEL_MAP_MAX - 1)) ;
			codes.push (m [k]) ;
		}
		r.api = "cmd:SET_CHANNEL_MAP_INFO" ;
		os.begin_op (t.id, (int) t.pc, "sf_command", budget_for (t, 0)) ;
		GUARD (t, r) ;
		int rc = sf_command (t.sf, SFC_SET_CHANNEL_MAP_INFO, m, (int) (sizeof (int) * ch)) ;
		r.ret = rc ; r.err = sf_error (t.sf) ; r.dh = fnv1a (m, sizeof (int) * ch) ;
		after_call (t, r) ;
		J v = J::obj () ; v ["rc"] = rc ; v ["codes"] = codes ; v ["late"] = t.wr > 0 ? 1 : 0 ;
		obs (t, "setchanmap", v) ;
		free (m) ;
	}

	void op_getchanmap (Task &t, const J &, Rec &r)
	{	if (!t.sf) { r.skipped = true ; return ; }
		int ch = t.ch > 0 ? t.ch : 1 ;
		int *m = (int *) calloc (ch, sizeof (int)) ;
		r.api = "cmd:GET_CHANNEL_MAP_INFO" ;
		os.begin_op (t.id, (int) t.pc, "sf_command", budget_for (t, 0)) ;
		GUARD (t, r) ;
		int rc = sf_command (t.sf, SFC_GET_CHANNEL_MAP_INFO, m, (int) (sizeof (int) * ch)) ;
		r.ret = rc ; r.err = sf_error (t.sf) ; if (rc) r.dh = fnv1a (m, sizeof (int) * ch) ;
		after_call (t, r) ;
		J v = J::obj () ; v ["rc"] = rc ; J codes = J::arr () ; for (int k = 0 ; rc && k < ch ; k++) codes.push (m [k]) ; v ["codes"] = codes ;
		obs (t, "getchanmap", v) ;
		free (m) ;
	}

	void op_setchunk (Task &t, const J &op, Rec &r)
	{	if (!t.sf) { r.skipped = true ; return ; }
		std::string id = op.gets ("id", "tSt0") ;
		int64_t len = op.geti ("len", 4) ; if (len < 0) len = 0 ; if (len > (1 << 20)) len = 1 << 20 ;
		SF_CHUNK_INFO ci ; memset (&ci, 0, sizeof (ci)) ;
		snprintf (ci.id, sizeof (ci.id), "%s", id.c_str ()) ;
		ci.id_size = (unsigned) std::min<size_t> (id.size (), sizeof (ci.id)) ;
		uint8_t *data = (uint8_t *) malloc (len ? (size_t) len : 1) ;
		for (int64_t k = 0 ; k < len ; k++) data [k] = (uint8_t) mix3 (key ^ 0xc4c4, (uint64_t) op.geti ("stream", 0), (uint64_t) k) ;
		ci.datalen = (unsigned) len ; ci.data = data ;
		r.api = "set_chunk" ;
		os.begin_op (t.id, (int) t.pc, "sf_set_chunk", budget_for (t, len)) ;
		GUARD (t, r) ;
		int rc = sf_set_chunk (t.sf, &ci) ;
		r.ret = rc ; r.err = sf_error (t.sf) ; r.dh = fnv1a (data, (size_t) len) ;
		after_call (t, r) ;
		J v = J::obj () ; v ["rc"] = rc ; v ["id"] = id ; v ["len"] = (long long) len ; v ["hash"] = (long long) (fnv1a (data, (size_t) len) >> 1) ; v ["late"] = t.wr > 0 ? 1 : 0 ;
		obs (t, "setchunk", v) ;
		free (data) ;
	}

	// iterator history: by id (or NULL id = full walk); per chunk size + data with a seeded datalen variant
	void op_iterchunks (Task &t, const J &op, Rec &r)
	{	if (!t.sf) { r.skipped = true ; return ; }
		r.api = "iter_chunks" ;
		SF_CHUNK_INFO q ; memset (&q, 0, sizeof (q)) ;
		bool byid = op.has ("id") ;
		if (byid) { std::string id = op.gets ("id") ; snprintf (q.id, sizeof (q.id), "%s", id.c_str ()) ; q.id_size = (unsigned) std::min<size_t> (id.size (), sizeof (q.id)) ; }
		int variant = (int) op.geti ("variant", 2) ;		// 0: datalen 0, 1: size-1, 2: size, 3: size+7
		os.begin_op (t.id, (int) t.pc, "sf_chunk_iter", budget_for (t, 1 << 16)) ;
		GUARD (t, r) ;
		SF_CHUNK_ITERATOR *it = sf_get_chunk_iterator (t.sf, byid ? &q : nullptr) ;
		J list = J::arr () ;
		uint64_t h = 0 ; int guard = 0 ;
		while (it && guard ++ < 2000)
		{	SF_CHUNK_INFO ci ; memset (&ci, 0, sizeof (ci)) ;
			int rc = sf_get_chunk_size (it, &ci) ;
			J e = J::obj () ; e ["rc_size"] = rc ; e ["id"] = std::string (ci.id, strnlen (ci.id, sizeof (ci.id))) ; e ["size"] = (long long) ci.datalen ;
			if (rc == SF_ERR_NO_ERROR && ci.datalen < (1u << 24))
			{	unsigned size = ci.datalen ;
				unsigned dl = variant == 0 ? 0 : variant == 1 ? (size ? size - 1 : 0) : variant == 2 ? size : size + 7 ;
				uint8_t *buf = (uint8_t *) malloc (dl ? dl : 1) ; memset (buf, 0xA5, dl ? dl : 1) ;
				ci.datalen = dl ; ci.data = buf ;
				int rc2 = sf_get_chunk_data (it, &ci) ;
				e ["rc_data"] = rc2 ; e ["asked"] = (long long) dl ;
				e ["id"] = std::string (ci.id, strnlen (ci.id, sizeof (ci.id))) ;		// the id is reported by the data call
				unsigned n = dl < size ? dl : size ;
				e ["hash"] = (long long) (fnv1a (buf, n) >> 1) ; e ["n"] = (long long) n ;
				if (dl > size) { bool untouched = true ; for (unsigned k = size ; k < dl ; k++) if (buf [k] != 0xA5) untouched = false ; e ["tail_untouched"] = untouched ; }
				h = fnv1a (buf, n, h) ;
				free (buf) ;
			}
			list.push (e) ;
			it = sf_next_chunk_iterator (it) ;
		}
		if (guard >= 2000) viol (t, "chunk.iter_endless", "-", "chunk iteration did not end after 2000 steps") ;
		r.ret = (int64_t) list.size () ; r.err = 0 ; r.dh = h ;
		after_call (t, r) ;
		J v = J::obj () ; v ["byid"] = byid ? op.gets ("id") : std::string ("") ; v ["full"] = byid ? 0 : 1 ; v ["list"] = list ; v ["variant"] = variant ;
		obs (t, "iterchunks", v) ;
	}

	// per-channel maximum |sample| of the whole file, read as double on a second handle with the given normalisation
	std::vector<double> true_max (Task &t, bool norm)
	{	std::vector<double> mx ((size_t) (t.ch > 0 ? t.ch : 1), 0.0) ;
		SF_INFO info ; memset (&info, 0, sizeof (info)) ;
		if (t.fmt && t.fmt->major == SF_FORMAT_RAW) { info.format = t.fmt->format ; info.channels = t.ch ; info.samplerate = t.rate ; }
		bool save_trace = os.trace_io_enabled ; int save_task = os.cur_task ;
		os.trace_io_enabled = false ; os.cur_task = -1 ; os.in_lib = true ; os.op_budget = 0 ;
		SimVio v ; v.f = store_file (t.store) ; v.off = 0 ;
		SF_VIRTUAL_IO vio = simos_vio () ;
		SNDFILE *h = (t.route == "path" && t.fmt && needs_path_route (*t.fmt)) ? sf_open (("/sim/cwd/" + t.store).c_str (), SFM_READ, &info) : sf_open_virtual (&vio, SFM_READ, &info, &v) ;
		if (h)
		{	sf_command (h, SFC_SET_NORM_DOUBLE, nullptr, norm ? SF_TRUE : SF_FALSE) ;
			int64_t items = info.frames * info.channels ;
			if (items > 0 && items < (1 << 26) && info.channels == (int) mx.size ())
			{	double *buf = (double *) malloc ((size_t) items * sizeof (double)) ;
				sf_count_t got = sf_readf_double (h, buf, info.frames) ;
				for (int64_t k = 0 ; k < got * info.channels ; k++) { double a = fabs (buf [k]) ; if (a > mx [(size_t) (k % info.channels)]) mx [(size_t) (k % info.channels)] = a ; }
				free (buf) ;
			}
			sf_close (h) ;
		}
		os.in_lib = false ; os.trace_io_enabled = save_trace ; os.cur_task = save_task ;
		return mx ;
	}

	// generic query commands with exact-size buffers (used by C03 / C16 / C18 / C19 histories)
	void op_query (Task &t, const J &op, Rec &r)
	{	if (!t.sf) { r.skipped = true ; return ; }
		std::string id = op.gets ("id") ;
		int ch = t.ch > 0 ? t.ch : 1 ;
		r.api = "query:" + id ;
		Digest d0q = digest (t) ;
		os.begin_op (t.id, (int) t.pc, "sf_command", budget_for (t, 0) + (t.frames > 0 ? 64 * t.frames : 0)) ;
		GUARD (t, r) ;
		int rc = 0 ; uint64_t h = 0 ; J v = J::obj () ;
		auto dbl1 = [&] (int cmd) { double *d = (double *) malloc (sizeof (double)) ; *d = -1 ; rc = sf_command (t.sf, cmd, d, sizeof (double)) ; h = fnv1a (d, 8) ; v ["val"] = *d ; free (d) ; } ;
		auto dbln = [&] (int cmd) { double *d = (double *) calloc (ch, sizeof (double)) ; rc = sf_command (t.sf, cmd, d, (int) (sizeof (double) * ch)) ; h = fnv1a (d, 8 * ch) ; J a = J::arr () ; for (int k = 0 ; k < ch ; k++) a.push (d [k]) ; v ["vals"] = a ; free (d) ; } ;
		if (id == "calc_max") dbl1 (SFC_CALC_SIGNAL_MAX) ;
		else if (id == "calc_norm_max") dbl1 (SFC_CALC_NORM_SIGNAL_MAX) ;
		else if (id == "calc_max_all") dbln (SFC_CALC_MAX_ALL_CHANNELS) ;
		else if (id == "calc_norm_max_all") dbln (SFC_CALC_NORM_MAX_ALL_CHANNELS) ;
		else if (id == "get_max") dbl1 (SFC_GET_SIGNAL_MAX) ;
		else if (id == "get_max_all") dbln (SFC_GET_MAX_ALL_CHANNELS) ;
		else if (id == "get_info") { SF_INFO *i = (SF_INFO *) calloc (1, sizeof (SF_INFO)) ; rc = sf_command (t.sf, SFC_GET_CURRENT_SF_INFO, i, sizeof (SF_INFO)) ; h = fnv1a (i, sizeof (SF_INFO)) ; v ["frames"] = (long long) i->frames ; free (i) ; }
		else if (id == "get_log") { char *b = (char *) malloc (2048) ; rc = sf_command (t.sf, SFC_GET_LOG_INFO, b, 2048) ; h = 0 ; free (b) ; }
		else if (id == "get_norm_double") rc = sf_command (t.sf, SFC_GET_NORM_DOUBLE, nullptr, 0) ;
		else if (id == "get_norm_float") rc = sf_command (t.sf, SFC_GET_NORM_FLOAT, nullptr, 0) ;
		else if (id == "get_clipping") rc = sf_command (t.sf, SFC_GET_CLIPPING, nullptr, 0) ;
		else if (id == "get_embed") { SF_EMBED_FILE_INFO *e = (SF_EMBED_FILE_INFO *) calloc (1, sizeof (SF_EMBED_FILE_INFO)) ; rc = sf_command (t.sf, SFC_GET_EMBED_FILE_INFO, e, sizeof (*e)) ; h = fnv1a (e, sizeof (*e)) ; free (e) ; }
		else if (id == "get_loop") { SF_LOOP_INFO *e = (SF_LOOP_INFO *) calloc (1, sizeof (SF_LOOP_INFO)) ; rc = sf_command (t.sf, SFC_GET_LOOP_INFO, e, sizeof (*e)) ; if (rc) h = fnv1a (e, sizeof (*e)) ; free (e) ; }
		else if (id == "needs_endswap") rc = sf_command (t.sf, SFC_RAW_DATA_NEEDS_ENDSWAP, nullptr, 0) ;
		else if (id == "get_ambisonic") rc = sf_command (t.sf, SFC_WAVEX_GET_AMBISONIC, nullptr, 0) ;
		else if (id == "byterate") rc = sf_current_byterate (t.sf) ;
		else if (id == "error") { rc = sf_error (t.sf) ; const char *s = sf_strerror (t.sf) ; h = s ? fnv1a (s, strlen (s)) : 0 ; }
		else { os.end_op () ; r.skipped = true ; return ; }
		r.ret = rc ; r.err = sf_error (t.sf) ; r.dh = h ;
		after_call (t, r) ;
		v ["rc"] = rc ; v ["id"] = id ; v ["rd"] = (long long) t.rd ;
		if (id.compare (0, 5, "calc_") == 0 && t.mode == SFM_READ && t.seekable && !t.stop && !t.faulted && !sm [t.store].corrupted && op.geti ("expect", 1))
		{	// the true maximum of the stored samples under the same normalisation, from an independent sequential decode
			bool norm = id.find ("norm") != std::string::npos ;
			std::vector<double> mx = true_max (t, norm) ;
			J e = J::arr () ; for (double x : mx) e.push (x) ; v ["expected"] = e ;
			Digest dq = digest (t) ;
			if (dq.ok && dq.v [DG_NORM_DOUBLE] != d0q.v [DG_NORM_DOUBLE]) viol (t, "calc.norm_changed", id, "CALC command left the double normalisation setting changed") ;
		}
		obs (t, "query", v) ;
		// queries are pure: the read position must be where the model left it
		Digest d = digest (t) ;
		if (d.ok && !t.stop && !t.faulted && opts.strict && t.pos_known && t.mode == SFM_READ && d.v [DG_READ_CURRENT] != t.rd)
		{	char b [160] ; snprintf (b, sizeof (b), "read position %lld after %s, was %lld", (long long) d.v [DG_READ_CURRENT], id.c_str (), (long long) t.rd) ;
			viol (t, "query.moved_position", id, b) ;
		}
	}

	// storage corruption between a close and the next open
	void op_corrupt (Task &t, const J &op, Rec &r)
	{	r.api = "corrupt" ; r.skipped = true ;
		std::string target = op.gets ("file", t.store.empty () ? "f" + std::to_string (t.id) + ".dat" : t.store) ;
		if (op.geti ("rsrc", 0) && os.ns.count ("/sim/cwd/._" + target)) { sm [target].corrupted = true ; target = "._" + target ; }
		SimFileP f = store_file (target) ;
		StoreModel &m = sm [f->name.substr (9)] ;
		m.corrupted = true ;
		std::vector<uint8_t> &d = f->data ;
		const J &ed = op.at ("edits") ;
		int64_t hdr = m.dataoffset > 0 ? m.dataoffset : 64 ;
		for (size_t k = 0 ; k < ed.size () ; k++)
		{	const J &e = ed [k] ;
			std::string kind = e.gets ("kind") ;
			int64_t sz = (int64_t) d.size () ;
			auto where = [&] (int64_t raw, const std::string &region) -> int64_t
			{	if (sz <= 0) return 0 ;
				if (raw < 0) raw = -raw ;
				if (region == "head") return raw % std::min<int64_t> (sz, hdr + 64) ;
				if (region == "tail") return sz - 1 - raw % std::min<int64_t> (sz, 64) ;
				return raw % sz ;
			} ;
			int64_t off = where (e.geti ("off", 0), e.gets ("region", "head")) ;
			if (kind == "flip") { if (sz) d [off] ^= (uint8_t) (1u << (e.geti ("bit", 0) & 7)) ; }
			else if (kind == "set") { if (sz) d [off] = (uint8_t) e.geti ("val", 0) ; }
			else if (kind == "field")
			{	int w = (int) e.geti ("width", 4) ; int64_t val = e.geti ("val", 0) ; bool be = e.geti ("be", 0) != 0 ;
				for (int b = 0 ; b < w && off + b < sz ; b++) d [off + b] = (uint8_t) (val >> (8 * (be ? w - 1 - b : b))) ;
			}
			else if (kind == "field_via")
			{	// structure aware: overwrite a field located relative to an offset that is itself stored in the file
				int64_t po = e.geti ("ptr_off", 0) ; int pw = (int) e.geti ("ptr_width", 4) ; bool pbe = e.geti ("ptr_be", 1) != 0 ;
				if (po >= 0 && po + pw <= sz)
				{	int64_t base = 0 ; for (int b = 0 ; b < pw ; b++) base |= (int64_t) d [po + (pbe ? b : pw - 1 - b)] << (8 * (pw - 1 - b)) ;
					int64_t at = base + e.geti ("delta", 0) ; int w = (int) e.geti ("width", 2) ; int64_t val = e.geti ("val", 0) ; bool be = e.geti ("be", 1) != 0 ;
					for (int b = 0 ; b < w && at >= 0 && at + b < sz ; b++) d [at + b] = (uint8_t) (val >> (8 * (be ? w - 1 - b : b))) ;
				}
			}
			else if (kind == "chunk_field" || kind == "inject")
			{	// structure aware, for chunked containers: walk the chunk list of the (still valid) image
				struct Ck { int64_t hdr, pay, len ; } ;
				std::vector<Ck> cks ;
				int fam = 0 ;		// 1 IFF big-endian sizes (FORM), 2 RIFF little-endian, 3 RIFX big-endian, 4 CAF (12-byte chunk headers, 64-bit BE sizes)
				if (sz >= 12 && !memcmp (d.data (), "FORM", 4)) fam = 1 ;
				else if (sz >= 12 && (!memcmp (d.data (), "RIFF", 4) || !memcmp (d.data (), "RF64", 4))) fam = 2 ;
				else if (sz >= 12 && !memcmp (d.data (), "RIFX", 4)) fam = 3 ;
				else if (sz >= 8 && !memcmp (d.data (), "caff", 4)) fam = 4 ;
				auto rd32 = [&] (int64_t at, bool be) { uint32_t v = 0 ; for (int b = 0 ; b < 4 ; b++) v |= (uint32_t) d [at + b] << (8 * (be ? 3 - b : b)) ; return (int64_t) v ; } ;
				if (fam >= 1 && fam <= 3)
				{	bool be = fam != 2 ;
					for (int64_t at = 12 ; at + 8 <= sz && cks.size () < 300 ; )
					{	int64_t len = rd32 (at + 4, be) ; cks.push_back (Ck { at, at + 8, std::min<int64_t> (len, sz - at - 8) }) ;
						if (len < 0 || len > sz) break ;
						at += 8 + len + (len & 1) ;
					}
				}
				else if (fam == 4)
				{	for (int64_t at = 8 ; at + 12 <= sz && cks.size () < 300 ; )
					{	int64_t hi = rd32 (at + 4, true), lo = rd32 (at + 8, true) ; int64_t len = hi ? sz : lo ;
						cks.push_back (Ck { at, at + 12, std::min<int64_t> (len, sz - at - 12) }) ;
						if (hi || len > sz) break ;
						at += 12 + len ;
					}
				}
				if (kind == "chunk_field" && !cks.empty () && e.geti ("fmt_field", 0))
				{	// a field of one of the chunks that describe the encoding (block sizes, channel counts, rates, frames per packet,
					// table lengths): every one of them ends up in a division, an allocation or a loop bound somewhere
					static const char *ids [] = { "fmt ", "COMM", "desc", "kuki", "pakt", "VHDR", "ds64", "fact", "chan", "SSND", "data" } ;
					std::vector<const Ck *> hit ;
					for (auto &c : cks) for (auto id : ids) if (c.hdr + 4 <= sz && !memcmp (&d [(size_t) c.hdr], id, 4)) hit.push_back (&c) ;
					if (!hit.empty () && e.geti ("dup", 0))
					{	// a second copy of such a chunk, one field changed, behind everything else or in front of another chunk: a reader that
						// lets the later chunk win has sized its tables (peak, channel map, packet table) from the earlier one
						// the chunk that fixes channel count and sample format (fmt / COMM / desc) if there is one
						const Ck *cc = nullptr ;
						for (auto h : hit) if (!cc && (!memcmp (&d [(size_t) h->hdr], "fmt ", 4) || !memcmp (&d [(size_t) h->hdr], "COMM", 4) || !memcmp (&d [(size_t) h->hdr], "desc", 4))) cc = h ;
						const Ck &c = cc ? *cc : *hit [(size_t) (e.geti ("chunk", 0) % (int64_t) hit.size ())] ;
						int64_t hl = c.pay - c.hdr, tot = hl + c.len + ((fam != 4 && (c.len & 1)) ? 1 : 0) ;
						if (c.len >= 0 && c.hdr + tot <= sz && tot < 70000)
						{	std::vector<uint8_t> cp (d.begin () + c.hdr, d.begin () + c.hdr + tot) ;
							int w = e.geti ("width", 2) >= 4 ? 4 : 2 ; int64_t val = e.geti ("val", 0) ;
							int64_t span = std::max<int64_t> (2, std::min<int64_t> (c.len, 48)) ; int64_t fo = 2 * (e.geti ("foff", 0) % (span / 2)) ;
							bool be = fam != 2 ;
							if (cc && e.geti ("chan", 0))		// the channel count of the copy
							{	if (!memcmp (&d [(size_t) c.hdr], "fmt ", 4)) { fo = 2 ; w = 2 ; } else if (!memcmp (&d [(size_t) c.hdr], "COMM", 4)) { fo = 0 ; w = 2 ; } else { fo = 24 ; w = 4 ; }
							}
							for (int b = 0 ; b < w && hl + fo + b < (int64_t) cp.size () ; b++) cp [(size_t) (hl + fo + b)] = (uint8_t) (val >> (8 * (be ? w - 1 - b : b))) ;
							int64_t at = e.geti ("at_end", 0) ? sz : cks [(size_t) (e.geti ("to", 0) % (int64_t) cks.size ())].hdr ;
							d.insert (d.begin () + at, cp.begin (), cp.end ()) ;
							if (fam != 4 && d.size () >= 8)
							{	int64_t total = rd32 (4, be) + (int64_t) cp.size () ;
								for (int b = 0 ; b < 4 ; b++) d [4 + b] = (uint8_t) ((uint64_t) total >> (8 * (be ? 3 - b : b))) ;
							}
							probe ("corrupt:dup_chunk") ;
						}
					}
					else if (!hit.empty ())
					{	// "primary": the first such chunk of the image (fmt / COMM / desc / VHDR come first)
						const Ck &c = e.geti ("primary", 0) ? *hit [0] : *hit [(size_t) (e.geti ("chunk", 0) % (int64_t) hit.size ())] ;
						int w = e.geti ("width", 2) >= 4 ? 4 : 2 ; int64_t val = e.geti ("val", 0) ;
						int64_t span = std::max<int64_t> (2, std::min<int64_t> (c.len, 48)) ;
						int64_t fo = 2 * (e.geti ("foff", 0) % (span / 2)) ;
						bool be = fam != 2 ; if (e.geti ("swap", 0)) be = !be ;
						for (int b = 0 ; b < w && c.pay + fo + b < sz ; b++) d [(size_t) (c.pay + fo + b)] = (uint8_t) (val >> (8 * (be ? w - 1 - b : b))) ;
						probe ("corrupt:fmt_field") ;
					}
				}
				else if (kind == "chunk_field" && !cks.empty () && e.geti ("size_field", 0))
				{	// the length field of the chunk itself (CAF: the low word of its 64-bit length)
					const Ck &c = cks [(size_t) (e.geti ("chunk", 0) % (int64_t) cks.size ())] ;
					int64_t val = e.geti ("val", 0) ; bool be = fam != 2 ; int64_t at = fam == 4 ? c.hdr + 8 : c.hdr + 4 ;
					for (int b = 0 ; b < 4 && at + b < sz ; b++) d [(size_t) (at + b)] = (uint8_t) (val >> (8 * (be ? 3 - b : b))) ;
					if (fam == 4 && e.geti ("swap", 0)) for (int b = 0 ; b < 4 && c.hdr + 4 + b < sz ; b++) d [(size_t) (c.hdr + 4 + b)] = 0xff ;
					probe ("corrupt:chunk_size") ;
				}
				else if (kind == "chunk_field" && !cks.empty ())
				{	// counts and sizes live in the first bytes of a chunk payload: overwrite one of them with a boundary value
					const Ck &c = cks [(size_t) (e.geti ("chunk", 0) % (int64_t) cks.size ())] ;
					int w = (int) e.geti ("width", 2) ; int64_t val = e.geti ("val", 0) ;
					int64_t fo = c.len > 0 ? e.geti ("foff", 0) % std::min<int64_t> (c.len, 32) : 0 ;
					bool be = fam == 2 ? false : true ; if (e.geti ("swap", 0)) be = !be ;
					for (int b = 0 ; b < w && c.pay + fo + b < sz ; b++) d [(size_t) (c.pay + fo + b)] = (uint8_t) (val >> (8 * (be ? w - 1 - b : b))) ;
				}
				else if (kind == "inject" && fam)
				{	// a well-formed chunk with an id the reader knows, which the writer of this image did not produce
					static const char *iff [] = { "INST", "MARK", "COMT", "APPL", "NAME", "AUTH", "ANNO", "(c) ", "PEAK", "basc", "CHAN", "COMM", "FVER", "SSND", "VHDR", "CHAN", "ATAK", "RLSE" } ;
					static const char *riff [] = { "smpl", "inst", "cue ", "LIST", "bext", "cart", "fact", "PEAK", "acid", "strc", "afsp", "clm ", "plst", "DISP", "levl", "iXML", "fmt ", "data", "ds64", "PAD ", "JUNK", "MEXT", "labl", "note" } ;
					static const char *caf [] = { "chan", "info", "peak", "uuid", "free", "mark", "inst", "strg", "desc", "kuki", "pakt", "data", "ovvw", "midi", "umid", "regn" } ;
					const char *id = fam == 1 ? iff [e.geti ("id", 0) % 18] : fam == 4 ? caf [e.geti ("id", 0) % 16] : riff [e.geti ("id", 0) % 24] ;
					int64_t len = e.geti ("len", 20) % 300 ; int fill = (int) e.geti ("fill", 0) ;
					std::vector<uint8_t> ck (id, id + 4) ;
					bool be = fam != 2 ;
					if (fam == 4) for (int b = 0 ; b < 8 ; b++) ck.push_back ((uint8_t) ((uint64_t) len >> (8 * (7 - b)))) ;
					else for (int b = 0 ; b < 4 ; b++) ck.push_back ((uint8_t) ((uint64_t) len >> (8 * (be ? 3 - b : b)))) ;
					if (!strcmp (id, "LIST") && fam != 1 && fam != 4 && fill != 2)
					{	// a LIST of a type the reader knows, holding sub-chunks it knows, some with lengths that do not add up
						static const char *types [] = { "exif", "adtl", "INFO", "exif" } ;
						static const char *subs [3][8] = { { "ever", "emnt", "emdl", "ecor", "etim", "erel", "eucm", "olym" }, { "labl", "note", "ltxt", "file", "labl", "note", "ltxt", "DATA" }, { "INAM", "ICMT", "IART", "ISFT", "ICRD", "IGNR", "ITRK", "IPRD" } } ;
						uint64_t h = mix3 (key, 0x115 + k, (uint64_t) len) ;
						int ty = (int) (h & 3) ; const char *tn = types [ty] ; int row = ty == 3 ? 0 : ty ;
						std::vector<uint8_t> pay (tn, tn + 4) ;
						for (int sc = 0, nsc = 1 + (int) ((h >> 2) & 3) ; sc < nsc ; sc++)
						{	uint64_t hs = mix3 (key, 0x116 + k, (uint64_t) sc) ;
							const char *sn = subs [row][hs & 7] ; pay.insert (pay.end (), sn, sn + 4) ;
							uint32_t sl = (uint32_t) ((hs >> 3) % 40), stated = sl ;
							switch ((hs >> 12) & 7) { case 0 : stated = sl + 1 ; break ; case 1 : stated = 0xffffffffu ; break ; case 2 : stated = 4095 ; break ; case 3 : stated = sl ? sl - 1 : 0 ; break ; case 4 : stated = 0u - 4 * (uint32_t) (1 + ((hs >> 20) & 3)) ; break ; default : break ; }
							for (int b = 0 ; b < 4 ; b++) pay.push_back ((uint8_t) (stated >> (8 * (be ? 3 - b : b)))) ;
							for (uint32_t b = 0 ; b < sl ; b++) pay.push_back (((hs >> 16) & 1) && b + 1 < sl ? (uint8_t) ('a' + b % 26) : (uint8_t) mix3 (key, 0x117 + k, (uint64_t) (sc * 64 + b))) ;
							if (sl & 1) pay.push_back (0) ;
						}
						len = (int64_t) pay.size () ; ck.resize (4) ;
						for (int b = 0 ; b < 4 ; b++) ck.push_back ((uint8_t) ((uint64_t) len >> (8 * (be ? 3 - b : b)))) ;
						ck.insert (ck.end (), pay.begin (), pay.end ()) ;
						probe ("corrupt:inject_list") ;
					}
					else
					for (int64_t b = 0 ; b < len ; b++) ck.push_back (fill == 0 ? (uint8_t) mix3 (key, 0xdd0 + k, (uint64_t) b) : fill == 1 ? 0 : fill == 2 ? 0xff : (uint8_t) (b < 2 ? 0x7f : 0)) ;
					if (fam != 4 && (len & 1)) ck.push_back (0) ;
					// before the chunk chosen by "chunk" (the audio chunk is usually last) or at the very end
					int64_t at = cks.empty () || e.geti ("at_end", 0) ? sz : cks [(size_t) (e.geti ("chunk", 0) % (int64_t) cks.size ())].hdr ;
					d.insert (d.begin () + at, ck.begin (), ck.end ()) ;
					if (fam != 4 && d.size () >= 8)
					{	int64_t total = rd32 (4, be) + (int64_t) ck.size () ;
						for (int b = 0 ; b < 4 ; b++) d [4 + b] = (uint8_t) ((uint64_t) total >> (8 * (be ? 3 - b : b))) ;
					}
				}
			}
			else if (kind == "id3_prefix")
			{	// ID3v2 header: "ID3" version revision flags, then the tag length as four 7-bit bytes ("lie" shifts the stated length)
				int64_t n = e.geti ("len", 0), stated = std::max<int64_t> (0, n + e.geti ("lie", 0)) & 0x0fffffff ;
				std::vector<uint8_t> tag = { 'I', 'D', '3', (uint8_t) e.geti ("ver", 3), 0, (uint8_t) e.geti ("flags", 0),
					(uint8_t) ((stated >> 21) & 0x7f), (uint8_t) ((stated >> 14) & 0x7f), (uint8_t) ((stated >> 7) & 0x7f), (uint8_t) (stated & 0x7f) } ;
				for (int64_t b = 0 ; b < n ; b++) tag.push_back ((uint8_t) mix3 (key, 0x1d3 + k, (uint64_t) b)) ;
				d.insert (d.begin (), tag.begin (), tag.end ()) ;
			}
			else if (kind == "au_annotation")
			{	// AU: an annotation field between the fixed 24-byte header and the audio (legal; this library never writes one)
				if (sz >= 24 && (!memcmp (d.data (), ".snd", 4) || !memcmp (d.data (), "dns.", 4)))
				{	bool be = d [0] == '.' ;
					uint32_t off = 0 ; for (int b = 0 ; b < 4 ; b++) off |= (uint32_t) d [4 + b] << (8 * (be ? 3 - b : b)) ;
					int64_t n = e.geti ("len", 8) ;
					if (off >= 24 && off <= (uint32_t) sz)
					{	std::vector<uint8_t> note ; for (int64_t b = 0 ; b < n ; b++) note.push_back ((uint8_t) ('A' + mix3 (key, 0xa0 + k, (uint64_t) b) % 26)) ;
						d.insert (d.begin () + off, note.begin (), note.end ()) ;
						uint32_t noff = off + (uint32_t) n ; for (int b = 0 ; b < 4 ; b++) d [4 + b] = (uint8_t) (noff >> (8 * (be ? 3 - b : b))) ;
					}
				}
			}
			else if (kind == "wav_broken_fmt")
			{	// PCM tag with a bit width that contradicts the block alignment (24 bits in 4-byte slots and relatives)
				bool be = sz >= 4 && !memcmp (d.data (), "RIFX", 4) ;
				for (int64_t at = 12 ; at + 8 + 16 <= sz ; )
				{	uint32_t len = 0 ; for (int b = 0 ; b < 4 ; b++) len |= (uint32_t) d [at + 4 + b] << (8 * (be ? 3 - b : b)) ;
					if (!memcmp (&d [at], "fmt ", 4))
					{	auto put16 = [&] (int64_t o, int v) { d [at + 8 + o + (be ? 1 : 0)] = (uint8_t) v ; d [at + 8 + o + (be ? 0 : 1)] = (uint8_t) (v >> 8) ; } ;
						int chn = d [at + 8 + 2 + (be ? 1 : 0)] | d [at + 8 + 2 + (be ? 0 : 1)] << 8 ;
						put16 (0, 1) ; put16 (12, (int) e.geti ("mult", 4) * chn) ; put16 (14, (int) e.geti ("bits", 24)) ;
						break ;
					}
					if (len > (uint32_t) sz) break ;
					at += 8 + len + (len & 1) ;
				}
			}
			else if (kind == "truncate") { if (sz) d.resize ((size_t) where (e.geti ("len", 0), e.gets ("region", "any"))) ; }
			else if (kind == "zero") { int64_t n = e.geti ("len", 512) ; for (int64_t b = 0 ; b < n && off + b < sz ; b++) d [off + b] = 0 ; }
			else if (kind == "dup")
			{	int64_t to = where (e.geti ("to", 0), "any"), n = e.geti ("len", 512) ;
				std::vector<uint8_t> tmp ; for (int64_t b = 0 ; b < n && off + b < sz ; b++) tmp.push_back (d [off + b]) ;
				for (size_t b = 0 ; b < tmp.size () && to + (int64_t) b < sz ; b++) d [to + b] = tmp [b] ;
			}
			else if (kind == "append") { int64_t n = e.geti ("len", 16) ; for (int64_t b = 0 ; b < n ; b++) d.push_back ((uint8_t) mix3 (key, 0xaaa, (uint64_t) (b + k))) ; }
			else if (kind == "random_tail") { int64_t keep = std::min<int64_t> (sz, e.geti ("keep", 12)) ; for (int64_t b = keep ; b < sz ; b++) d [b] = (uint8_t) mix3 (key, 0xbbb + k, (uint64_t) b) ; }
			else if (kind == "random_all") { int64_t n = e.geti ("len", 256) ; d.resize ((size_t) n) ; for (int64_t b = 0 ; b < n ; b++) d [b] = (uint8_t) mix3 (key, 0xccc + k, (uint64_t) b) ; }
			probe ((std::string ("corrupt:") + kind).c_str ()) ;
		}
	}

	// crash image: what the store holds now is what survives; a recovery reader parses the copy (C11)
	struct CrashImg { int task ; size_t op ; int64_t n ; int64_t F ; int T ; std::vector<uint64_t> data ; bool opened ; } ;
	std::vector<CrashImg> crashes ;

	void op_crash (Task &t, const J &op, Rec &r)
	{	r.api = "crash" ; r.skipped = true ;
		if (!t.sf || t.mode == SFM_READ || t.stop) return ;
		// a crash point only means something after a header update was asked for (explicitly since the last audio write, or by
		// the automatic mode): the shrinker must not be able to drop the update and keep the crash point
		if (!t.auto_on && !t.update_requested) return ;
		SimFileP src = store_file (t.store) ;
		SimFileP img = std::make_shared<SimFile> () ; img->data = src->data ; img->name = "crashimg" ;
		int T = stype_from (op.gets ("T", plan.at ("cfg").gets ("T", "short"))) ;
		SF_INFO info ; memset (&info, 0, sizeof (info)) ;
		bool save_trace = os.trace_io_enabled ; int save_task = os.cur_task ;
		os.trace_io_enabled = false ; os.cur_task = -1 ; os.in_lib = true ; os.op_budget = 0 ;
		SimVio v ; v.f = img ; v.off = 0 ;
		SF_VIRTUAL_IO vio = simos_vio () ;
		SNDFILE *h = sf_open_virtual (&vio, SFM_READ, &info, &v) ;
		CrashImg ci ; ci.task = t.id ; ci.op = t.pc ; ci.n = t.frames ; ci.F = -1 ; ci.T = T ; ci.opened = h != nullptr ;
		int64_t delivered = -1 ;
		std::string openerr = h ? "" : sf_strerror (nullptr) ;
		if (h)
		{	ci.F = info.frames ;
			int64_t items = info.frames * info.channels ;
			if (items >= 0 && items < (1 << 26) && info.channels > 0)
			{	size_t extra = (size_t) info.channels * 4 ;
				void *buf = malloc (((size_t) items + extra) * stype_size (T) + 8) ;
				sf_count_t got = 0 ;
				switch (T)
				{	case T_SHORT : got = sf_readf_short (h, (short *) buf, info.frames + 4) ; break ;
					case T_INT : got = sf_readf_int (h, (int *) buf, info.frames + 4) ; break ;
					case T_FLOAT : got = sf_readf_float (h, (float *) buf, info.frames + 4) ; break ;
					default : got = sf_readf_double (h, (double *) buf, info.frames + 4) ; break ;
				}
				delivered = got ;
				int64_t n = std::min<int64_t> (got, info.frames) * info.channels ;
				ci.data.resize ((size_t) (n > 0 ? n : 0)) ;
				for (int64_t k = 0 ; k < n ; k++) ci.data [k] = item_bits (buf, T, k) ;
				free (buf) ;
			}
			sf_close (h) ;
		}
		os.in_lib = false ; os.trace_io_enabled = save_trace ; os.cur_task = save_task ;
		probe ("crash_images") ;
		char b [256] ;
		const Fmt &f = *t.fmt ;
		int B = block_frames (f, t.ch, t.rate) ;
		if (ci.n % B) probe ("crash_image_mid_block") ;
		if (!h) { viol (t, "crash.open", "-", "recovery reader cannot open the image taken after the header update: " + openerr) ; return ; }
		if (info.channels != t.ch || (info.format & SF_FORMAT_SUBMASK) != (f.format & SF_FORMAT_SUBMASK) || (info.format & SF_FORMAT_TYPEMASK) != (f.format & SF_FORMAT_TYPEMASK))
		{	snprintf (b, sizeof (b), "recovered ch=%d format=0x%x, writer ch=%d format=0x%x", info.channels, info.format, t.ch, f.format) ; viol (t, "crash.params", "-", b) ; return ; }
		int64_t rm = rate_model (f, t.rate, t.ch) ;
		if (rm >= 0 && info.samplerate != rm) { snprintf (b, sizeof (b), "recovered rate %d, model %lld", info.samplerate, (long long) rm) ; viol (t, "crash.params", "rate", b) ; return ; }
		int64_t n = ci.n, lo = (n / B) * B ;
		bool okF = B == 1 ? (ci.F == n || (ci.F == n + 1 && pad_frame_possible (f, t.ch, n))) : (ci.F >= lo && ci.F <= n) ;
		if (!okF)
		{	const char *disc = ci.F < lo ? "F<floor" : ci.F > n ? "F>n" : "other" ;
			snprintf (b, sizeof (b), "crash image after %lld frames reports %lld frames (block %d)", (long long) n, (long long) ci.F, B) ; viol (t, "crash.frames", disc, b) ; return ; }
		if (delivered != ci.F) { snprintf (b, sizeof (b), "crash image reports %lld frames, reading delivers %lld", (long long) ci.F, (long long) delivered) ; viol (t, "crash.eof", delivered < ci.F ? "fewer" : "more", b) ; return ; }
		StoreModel &m = sm [t.store] ;
		if (m.model_on && m.T == T)
		{	int64_t lim = std::min<int64_t> ({ (int64_t) ci.data.size (), (int64_t) m.val.size (), n * t.ch }) ;
			for (int64_t k = 0 ; k < lim ; k++)
				if (m.known [k] && ci.data [k] != m.val [k])
				{	snprintf (b, sizeof (b), "crash image after %lld frames: item %lld reads 0x%llx, written 0x%llx", (long long) n, (long long) k, (unsigned long long) ci.data [k], (unsigned long long) m.val [k]) ;
					viol (t, "crash.prefix", "model", b) ; return ;
				}
			probe ("crash_prefix_items_compared", (uint64_t) (lim > 0 ? lim : 0)) ;
		}
		crashes.push_back (std::move (ci)) ;
	}

	// at the end: every crash image's decode must be a prefix of the finished file's decode (lossy encodings)
	void finish_crashes ()
	{	for (auto &ci : crashes)
		{	Task &t = tasks [ci.task] ;
			if (t.stop || t.faulted) continue ;
			// only an append-only writer leaves every crash image a prefix of the finished file
			bool seeks = false ; if (t.ops) for (auto &o : t.ops->a) if (o.gets ("op") == "seek") seeks = true ;
			if (seeks) continue ;
			// decode the finished file
			t.mode = SFM_READ ;
			const std::vector<uint64_t> *S = nullptr ;
			{	Task tmp = t ; tmp.ref.clear () ; S = ensure_ref (tmp, ci.T) ; final_decodes [ci.task * 8 + ci.T] = *S ; }
			const std::vector<uint64_t> &fin = final_decodes [ci.task * 8 + ci.T] ;
			int64_t lim = std::min<int64_t> ({ (int64_t) ci.data.size (), (int64_t) fin.size (), ci.n * t.ch }) ;
			for (int64_t k = 0 ; k < lim ; k++)
				if (ci.data [k] != fin [k])
				{	char b [200] ; snprintf (b, sizeof (b), "crash image after %lld frames: item %lld decodes to 0x%llx, finished file 0x%llx", (long long) ci.n, (long long) k, (unsigned long long) ci.data [k], (unsigned long long) fin [k]) ;
					size_t save = t.pc ; t.pc = ci.op ; viol (t, "crash.prefix", "final", b) ; t.pc = save ; break ;
				}
		}
	}
	std::map<int, std::vector<uint64_t>> final_decodes ;

	// ------------------------------------------------------------------------------------------
	// invalid calls (C09): documented failure value, error recorded, state and store untouched

	struct Snap { int64_t v [DG_COUNT] ; bool ok ; uint64_t store ; } ;
	Snap snap (Task &t)
	{	Snap s ; Digest d = digest (t) ; s.ok = d.ok ; memcpy (s.v, d.v, sizeof (s.v)) ;
		auto it = os.ns.find ("/sim/cwd/" + t.store) ;
		s.store = it != os.ns.end () ? it->second->hash () : 0 ;
		return s ;
	}
	std::string snap_diff (const Snap &a, const Snap &b)
	{	static const int fields [] = { DG_READ_CURRENT, DG_WRITE_CURRENT, DG_FRAMES, DG_CHANNELS, DG_SAMPLERATE, DG_FORMAT, DG_SEEKABLE, DG_NORM_FLOAT, DG_NORM_DOUBLE,
			DG_ADD_CLIPPING, DG_AUTO_HEADER, DG_STR_COUNT, DG_STR_HASH, DG_RCHUNKS_USED, DG_WCHUNKS_USED, DG_PEAK_HASH, DG_BEXT_HASH, DG_CART_HASH, DG_CUES_HASH, DG_INSTR_HASH,
			DG_CHANMAP_HASH, DG_DATAOFFSET, DG_DATALENGTH, DG_HAVE_WRITTEN } ;
		static const char *names [] = { "read_position", "write_position", "frames", "channels", "samplerate", "format", "seekable", "norm_float", "norm_double",
			"clipping", "auto_header", "string_count", "strings", "read_chunks", "write_chunks", "peak", "bext", "cart", "cues", "instrument", "channel_map", "dataoffset", "datalength", "have_written" } ;
		if (!a.ok || !b.ok) return "" ;
		for (size_t k = 0 ; k < sizeof (fields) / sizeof (fields [0]) ; k++)
			if (a.v [fields [k]] != b.v [fields [k]]) return names [k] ;
		if (a.store != b.store) return "store_bytes" ;
		return "" ;
	}

	void op_bad (Task &t, const J &op, Rec &r)
	{	if (!t.sf) { r.skipped = true ; return ; }
		std::string kind = op.gets ("kind") ;
		int T = stype_from (op.gets ("T", plan.at ("cfg").gets ("T", "short"))) ; if (T == T_RAW) T = T_SHORT ;
		int ch = t.ch > 0 ? t.ch : 1 ;
		bool applicable = true ;
		int64_t ret = 0 ; bool expect_zero = true ; bool ret_is_code = false ; int64_t expect_ret = 0 ; int64_t raw_bw = 1 ;
		// decide applicability before touching the library
		if (kind == "read_wrong_mode") applicable = t.mode == SFM_WRITE ;
		else if (kind == "write_wrong_mode") applicable = t.mode == SFM_READ ;
		else if (kind == "read_misaligned") applicable = t.mode != SFM_WRITE && ch >= 2 ;
		else if (kind == "write_misaligned") applicable = t.mode != SFM_READ && ch >= 2 ;
		else if (kind == "read_negative") applicable = t.mode != SFM_WRITE ;
		else if (kind == "write_negative") applicable = t.mode != SFM_READ ;
		else if (kind == "seek_wrong_flag") applicable = t.mode != SFM_RDWR && t.seekable ;
		else if (kind == "seek_out_of_range" || kind == "seek_bad_whence") applicable = t.seekable ;
		else if (kind == "seek_beyond_write") applicable = t.seekable && t.mode != SFM_READ ;
		else if (kind == "seek_nonseekable") applicable = !t.seekable ;
		else if (kind == "setstr_read_handle") applicable = t.mode == SFM_READ ;
		else if (kind == "raw_read_misaligned" || kind == "raw_write_misaligned")
		{	// byte counts that are not a whole number of frames (of channels, for encodings without a fixed sample width)
			Digest dd = digest (t) ;
			raw_bw = dd.ok && dd.v [DG_BYTEWIDTH] > 0 ? dd.v [DG_BYTEWIDTH] : 1 ;
			applicable = dd.ok && ch * raw_bw >= 2 && (kind == "raw_read_misaligned" ? (t.mode != SFM_WRITE && dd.v [DG_READ_CURRENT] < dd.v [DG_FRAMES]) : t.mode != SFM_READ) ;
		}
		else if (kind == "setmeta_invalid")
		{	int var = (int) (op.geti ("n", 0) % 9) ;
			bool wavlike = t.fmt && (t.fmt->major == SF_FORMAT_WAV || t.fmt->major == SF_FORMAT_RF64 || (var >= 3 && t.fmt->major == SF_FORMAT_WAVEX)) ;
			applicable = t.mode != SFM_READ && (var >= 6 || wavlike) ;
		}
		else if (kind == "setstr_bad_type" || kind == "setstr_null" || kind == "setstr_empty") applicable = t.mode != SFM_READ ;
		else if (kind == "cmd_after_data")
		{	// "after data" means after audio has been handed to the library, not merely a write pointer moved by a seek
			Digest dd = digest (t) ;
			applicable = t.mode != SFM_READ && dd.ok && dd.v [DG_HAVE_WRITTEN] != 0 && t.fmt && (t.fmt->is_float || t.fmt->is_double) && peak_capable (*t.fmt) ;
		}
		if (!applicable) { r.skipped = true ; return ; }
		Snap s0 = snap (t) ;
		int64_t n = op.geti ("n", 4) ; if (n < 1) n = 1 ;
		size_t bytes = (size_t) (n * ch + ch) * 8 ;
		if (kind == "setmeta_invalid") bytes = sizeof (SF_BROADCAST_INFO) + sizeof (SF_CART_INFO) + 40000 ;
		uint8_t *buf = (uint8_t *) malloc (bytes) ; memset (buf, 0x5A, bytes) ;
		uint64_t bh = fnv1a (buf, bytes) ;
		r.api = "bad:" + kind ;
		os.begin_op (t.id, (int) t.pc, "sf_bad_call", budget_for (t, (int64_t) bytes)) ;
		GUARD (t, r) ;
		auto rd = [&] (int64_t items, bool fr) -> int64_t
		{	switch (T) { case T_SHORT : return fr ? sf_readf_short (t.sf, (short *) buf, items) : sf_read_short (t.sf, (short *) buf, items) ;
				case T_INT : return fr ? sf_readf_int (t.sf, (int *) buf, items) : sf_read_int (t.sf, (int *) buf, items) ;
				case T_FLOAT : return fr ? sf_readf_float (t.sf, (float *) buf, items) : sf_read_float (t.sf, (float *) buf, items) ;
				default : return fr ? sf_readf_double (t.sf, (double *) buf, items) : sf_read_double (t.sf, (double *) buf, items) ; } } ;
		auto wr = [&] (int64_t items, bool fr) -> int64_t
		{	switch (T) { case T_SHORT : return fr ? sf_writef_short (t.sf, (short *) buf, items) : sf_write_short (t.sf, (short *) buf, items) ;
				case T_INT : return fr ? sf_writef_int (t.sf, (int *) buf, items) : sf_write_int (t.sf, (int *) buf, items) ;
				case T_FLOAT : return fr ? sf_writef_float (t.sf, (float *) buf, items) : sf_write_float (t.sf, (float *) buf, items) ;
				default : return fr ? sf_writef_double (t.sf, (double *) buf, items) : sf_write_double (t.sf, (double *) buf, items) ; } } ;
		bool fr = op.geti ("fr", 0) != 0 ;
		if (kind == "read_wrong_mode") ret = rd (fr ? n : n * ch, fr) ;
		else if (kind == "write_wrong_mode") ret = wr (fr ? n : n * ch, fr) ;
		else if (kind == "read_misaligned") ret = rd (n * ch + 1, false) ;
		else if (kind == "write_misaligned") ret = wr (n * ch + 1, false) ;
		else if (kind == "raw_read_misaligned") ret = sf_read_raw (t.sf, buf, n * ch * raw_bw + 1) ;
		else if (kind == "raw_write_misaligned") ret = sf_write_raw (t.sf, buf, n * ch * raw_bw + 1) ;
		else if (kind == "setmeta_invalid")
		{	// metadata setters with a size that is too small, inconsistent with the size field inside, or beyond the library's limit
			int var = (int) (op.geti ("n", 0) % 9) ;
			memset (buf, 0, bytes) ;
			if (var < 3)
			{	SF_CART_INFO *ci = (SF_CART_INFO *) buf ; size_t base = offsetof (SF_CART_INFO, tag_text) ;
				memcpy (ci->version, "0101", 4) ; snprintf (ci->title, sizeof (ci->title), "title") ;
				int ds = var == 0 ? (int) (base + 16384) : var == 1 ? 100 : (int) (base + 64) ;
				ci->tag_text_size = var == 0 ? 16384 : var == 1 ? 0 : 1000 ;
				ret = sf_command (t.sf, SFC_SET_CART_INFO, buf, ds) ;
			}
			else if (var < 6)
			{	SF_BROADCAST_INFO *bi = (SF_BROADCAST_INFO *) buf ; size_t base = offsetof (SF_BROADCAST_INFO, coding_history) ;
				snprintf (bi->description, sizeof (bi->description), "description") ;
				int ds = var == 3 ? 100 : var == 4 ? (int) (base + 64) : (int) (base + 16384) ;
				bi->coding_history_size = var == 3 ? 0 : var == 4 ? 1000 : 16384 ;
				ret = sf_command (t.sf, SFC_SET_BROADCAST_INFO, buf, ds) ;
			}
			else if (var == 8)
			{	// a cue list whose count does not fit the buffer by one to four bytes (exact-size block: reading behind it is an ASan report)
				int k = 1 + (int) ((op.geti ("n", 0) / 9) % 4) ; size_t ds = 4 + 3 * sizeof (SF_CUE_POINT) - (size_t) k ;
				uint8_t *cb = (uint8_t *) calloc (1, ds) ; uint32_t cnt = 3 ; memcpy (cb, &cnt, 4) ;
				ret = sf_command (t.sf, SFC_SET_CUE, cb, (int) ds) ; free (cb) ;
			}
			else if (var == 6) ret = sf_command (t.sf, SFC_SET_INSTRUMENT, buf, (int) sizeof (SF_INSTRUMENT) - 1) ;
			else ret = sf_command (t.sf, SFC_SET_CUE, buf, 2) ;
		}
		else if (kind == "read_negative") ret = rd (-n, fr) ;
		else if (kind == "write_negative") ret = wr (-n, fr) ;
		else if (kind == "seek_bad_whence") { ret = sf_seek (t.sf, 0, (int) op.geti ("whence", 7)) ; expect_zero = false ; expect_ret = -1 ; }
		else if (kind == "seek_wrong_flag") { ret = sf_seek (t.sf, 0, SEEK_SET | (t.mode == SFM_READ ? SFM_WRITE : SFM_READ)) ; expect_zero = false ; expect_ret = -1 ; }
		else if (kind == "seek_out_of_range")
		{	int64_t off = (t.mode == SFM_READ && op.geti ("beyond", 0)) ? t.frames + 1 + op.geti ("n", 1) : -1 - op.geti ("n", 0) ;
			ret = sf_seek (t.sf, off, SEEK_SET) ; expect_zero = false ; expect_ret = -1 ; }
		else if (kind == "seek_beyond_write")
		{	// writable handles: a seek beyond the end is accepted by some codecs and refused by others (block codecs). If it is refused
			// it is a failed call like any other; if it is accepted the model simply follows the handle.
			ret = sf_seek (t.sf, t.frames + 1 + op.geti ("n", 1), SEEK_SET | (t.mode == SFM_RDWR ? SFM_WRITE : 0)) ; expect_zero = false ; expect_ret = -1 ;
			if (ret != -1)
			{	r.ret = ret ; r.err = sf_error (t.sf) ; after_call (t, r) ; probe ("bad:seek_beyond_write_accepted") ;
				Digest d = digest (t) ; sync_pos (t, d) ; sm [t.store].model_on = false ; free (buf) ; return ;
			}
		}
		else if (kind == "seek_nonseekable") { ret = sf_seek (t.sf, 0, SEEK_SET) ; expect_zero = false ; expect_ret = -1 ; }
		else if (kind == "cmd_unknown") { int ids [] = { 0x0FFF, 0x7FFFFFFF, -1, 0x1234 } ; ret = sf_command (t.sf, ids [op.geti ("n", 0) & 3], nullptr, 0) ; ret_is_code = true ; }
		else if (kind == "cmd_bad_size")
		{	int cmds [] = { SFC_GET_CURRENT_SF_INFO, SFC_CALC_SIGNAL_MAX, SFC_GET_CUE_COUNT, SFC_GET_INSTRUMENT, SFC_SET_CHANNEL_MAP_INFO, SFC_GET_EMBED_FILE_INFO } ;
			ret = sf_command (t.sf, cmds [op.geti ("n", 0) % 6], op.geti ("null", 0) ? nullptr : buf, 3) ; ret_is_code = true ; }
		else if (kind == "cmd_after_data") { ret = sf_command (t.sf, SFC_SET_ADD_PEAK_CHUNK, nullptr, SF_TRUE) ; }
		else if (kind == "setstr_read_handle") { ret = sf_set_string (t.sf, SF_STR_TITLE, "title") ; ret_is_code = true ; }
		else if (kind == "setstr_bad_type") { ret = sf_set_string (t.sf, 0x77, "text") ; ret_is_code = true ; }
		else if (kind == "setstr_null") { ret = sf_set_string (t.sf, SF_STR_TITLE, nullptr) ; ret_is_code = true ; }
		else if (kind == "setstr_empty") { static const int ty [] = { SF_STR_TITLE, SF_STR_ARTIST, SF_STR_COMMENT, SF_STR_COPYRIGHT } ; ret = sf_set_string (t.sf, ty [op.geti ("n", 0) & 3], "") ; ret_is_code = true ; }
		else if (kind == "setchunk_null") { ret = sf_set_chunk (t.sf, nullptr) ; ret_is_code = true ; }
		else { os.end_op () ; free (buf) ; r.skipped = true ; return ; }
		r.ret = ret ; r.err = sf_error (t.sf) ;
		after_call (t, r) ;
		probe (("bad:" + kind).c_str ()) ;
		char b [256] ;
		do
		{	if (t.stop || t.faulted) break ;
			if (kind == "cmd_unknown") { /* container handlers may ignore ids they do not know: only purity is asserted */ }
			else if (ret_is_code)
			{	if (ret == 0 && r.err == 0) { snprintf (b, sizeof (b), "%s returned 0 and recorded no error", kind.c_str ()) ; viol (t, "bad.accepted", kind, b) ; break ; }
			}
			else
			{	if (ret != (expect_zero ? 0 : expect_ret)) { snprintf (b, sizeof (b), "%s returned %lld, documented failure value is %lld", kind.c_str (), (long long) ret, (long long) (expect_zero ? 0 : expect_ret)) ; viol (t, "bad.ret", kind, b) ; break ; }
				if (r.err == 0) { snprintf (b, sizeof (b), "%s failed without recording an error", kind.c_str ()) ; viol (t, "bad.no_error", kind, b) ; break ; }
			}
			int code = r.err ? r.err : (int) ret ;
			if (kind == "cmd_unknown" && code == 0) code = SF_ERR_SYSTEM ;
			const char *txt = sf_error_number (code) ;
			if (!txt || !*txt || strstr (txt, "No error defined") || strstr (txt, "No Error"))
			{	snprintf (b, sizeof (b), "%s: error %d has no usable text ('%s')", kind.c_str (), code, txt ? txt : "(null)") ; viol (t, "bad.error_text", kind, b) ; break ; }
			Snap s1 = snap (t) ;
			std::string d = snap_diff (s0, s1) ;
			if (!d.empty ()) { snprintf (b, sizeof (b), "%s changed %s", kind.c_str (), d.c_str ()) ; viol (t, d == "store_bytes" ? "bad.store_changed" : "bad.state_changed", kind + ":" + d, b) ; break ; }
			if (kind.compare (0, 5, "write") == 0 && fnv1a (buf, bytes) != bh) { viol (t, "bad.state_changed", kind + ":caller_buffer", "failed write modified the caller's buffer") ; break ; }
		} while (0) ;
		free (buf) ;
	}

	// failing opens (C09.open.fail): NULL, global error, nothing left behind (the audit runs at the end of the plan)
	void op_badopen (Task &t, const J &op, Rec &r)
	{	if (t.sf) { Rec rc ; do_close (t, rc) ; }
		std::string kind = op.gets ("kind") ;
		SF_INFO info ; memset (&info, 0, sizeof (info)) ;
		SimFileP file = store_file ("bad" + std::to_string (t.id) + ".dat") ;
		file->data.clear () ;
		r.api = "badopen:" + kind ;
		SNDFILE *h = nullptr ;
		SimVio *v = new SimVio ; v->f = file ; v->off = 0 ;
		SF_VIRTUAL_IO vio = simos_vio () ;
		std::string path = "/sim/cwd/bad" + std::to_string (t.id) + ".dat" ;
		os.begin_op (t.id, (int) t.pc, "sf_open", 20000) ;
		GUARD (t, r) ;
		if (kind == "null_info") h = sf_open (path.c_str (), SFM_READ, nullptr) ;
		else if (kind == "bad_mode") { info.format = SF_FORMAT_WAV | SF_FORMAT_PCM_16 ; info.channels = 1 ; info.samplerate = 8000 ; h = sf_open_virtual (&vio, 0x77, &info, v) ; }
		else if (kind == "zero_format") { info.channels = 1 ; info.samplerate = 8000 ; h = sf_open_virtual (&vio, SFM_WRITE, &info, v) ; }
		else if (kind == "zero_minor") { info.format = SF_FORMAT_WAV ; info.channels = 1 ; info.samplerate = 8000 ; h = sf_open_virtual (&vio, SFM_WRITE, &info, v) ; }
		else if (kind == "invalid_format") { info.format = SF_FORMAT_WAV | SF_FORMAT_DWVW_12 ; info.channels = 1 ; info.samplerate = 8000 ; h = sf_open (path.c_str (), SFM_WRITE, &info) ; }
		else if (kind == "zero_channels") { info.format = SF_FORMAT_WAV | SF_FORMAT_PCM_16 ; info.channels = 0 ; info.samplerate = 8000 ; h = sf_open_virtual (&vio, SFM_WRITE, &info, v) ; }
		else if (kind == "missing_path") h = sf_open ("/sim/cwd/does-not-exist.wav", SFM_READ, &info) ;
		else if (kind == "empty_store") h = sf_open_virtual (&vio, SFM_READ, &info, v) ;
		else if (kind == "junk_store") { file->data.assign (64, 0x41) ; h = sf_open_virtual (&vio, SFM_READ, &info, v) ; }
		else if (kind == "null_vio") h = sf_open_virtual (nullptr, SFM_READ, &info, v) ;
		else if (kind == "bad_fd") { h = sf_open_fd (-1, SFM_READ, &info, 0) ; }
		else { os.end_op () ; delete v ; r.skipped = true ; return ; }
		r.ret = h ? 1 : 0 ; r.err = sf_error (nullptr) ;
		after_call (t, r) ;
		probe (("badopen:" + kind).c_str ()) ;
		if (h)
		{	viol (t, "badopen.accepted", kind, "open of an invalid request returned a handle") ;
			os.in_lib = true ; sf_close (h) ; os.in_lib = false ;
		}
		else
		{	if (r.err == 0) viol (t, "badopen.no_error", kind, "failed open left sf_error(NULL) at 0") ;
			else { const char *s = sf_strerror (nullptr) ; if (!s || !*s) viol (t, "badopen.no_error", kind + ":text", "failed open has empty error text") ; }
		}
		delete v ;
		t.stop = false ;
	}

	// error state of every other open handle must not change when this task made a call (C19.error.isolated)
	std::map<int, int64_t> last_err ;
	void check_isolation (Task &me)
	{	for (auto &o : tasks)
		{	if (!o.sf) { last_err.erase (o.id) ; continue ; }
			Digest d = digest (o) ; if (!d.ok) continue ;
			auto it = last_err.find (o.id) ;
			if (o.id != me.id && it != last_err.end () && it->second != d.v [DG_ERROR] && !o.faulted)
			{	char b [200] ; snprintf (b, sizeof (b), "error state of handle %d changed from %lld to %lld during a call on handle %d", o.id, (long long) it->second, (long long) d.v [DG_ERROR], me.id) ;
				viol (o, "error.isolated", "-", b) ;
			}
			last_err [o.id] = d.v [DG_ERROR] ;
		}
	}

	// ------------------------------------------------------------------------------------------
	// command storm (C17): any command id x datasize x {NULL, exact-size heap block}

	struct CmdSpec { int id ; const char *name ; char cls ; int size ; } ;		// cls: Q query, S switch, M metadata, X acts on store; size: natural datasize (-1 = channels * 8, -2 = channels * 4)
	static const std::vector<CmdSpec> &cmd_table ()
	{	static const std::vector<CmdSpec> t = {
			{ SFC_GET_LIB_VERSION, "GET_LIB_VERSION", 'Q', 64 }, { SFC_GET_LOG_INFO, "GET_LOG_INFO", 'Q', 512 }, { SFC_GET_CURRENT_SF_INFO, "GET_CURRENT_SF_INFO", 'Q', sizeof (SF_INFO) },
			{ SFC_GET_NORM_DOUBLE, "GET_NORM_DOUBLE", 'Q', 0 }, { SFC_GET_NORM_FLOAT, "GET_NORM_FLOAT", 'Q', 0 }, { SFC_SET_NORM_DOUBLE, "SET_NORM_DOUBLE", 'S', 0 }, { SFC_SET_NORM_FLOAT, "SET_NORM_FLOAT", 'S', 0 },
			{ SFC_SET_SCALE_FLOAT_INT_READ, "SET_SCALE_FLOAT_INT_READ", 'S', 0 }, { SFC_SET_SCALE_INT_FLOAT_WRITE, "SET_SCALE_INT_FLOAT_WRITE", 'S', 0 },
			{ SFC_GET_SIMPLE_FORMAT_COUNT, "GET_SIMPLE_FORMAT_COUNT", 'Q', sizeof (int) }, { SFC_GET_SIMPLE_FORMAT, "GET_SIMPLE_FORMAT", 'Q', sizeof (SF_FORMAT_INFO) }, { SFC_GET_FORMAT_INFO, "GET_FORMAT_INFO", 'Q', sizeof (SF_FORMAT_INFO) },
			{ SFC_GET_FORMAT_MAJOR_COUNT, "GET_FORMAT_MAJOR_COUNT", 'Q', sizeof (int) }, { SFC_GET_FORMAT_MAJOR, "GET_FORMAT_MAJOR", 'Q', sizeof (SF_FORMAT_INFO) },
			{ SFC_GET_FORMAT_SUBTYPE_COUNT, "GET_FORMAT_SUBTYPE_COUNT", 'Q', sizeof (int) }, { SFC_GET_FORMAT_SUBTYPE, "GET_FORMAT_SUBTYPE", 'Q', sizeof (SF_FORMAT_INFO) },
			{ SFC_CALC_SIGNAL_MAX, "CALC_SIGNAL_MAX", 'Q', sizeof (double) }, { SFC_CALC_NORM_SIGNAL_MAX, "CALC_NORM_SIGNAL_MAX", 'Q', sizeof (double) },
			{ SFC_CALC_MAX_ALL_CHANNELS, "CALC_MAX_ALL_CHANNELS", 'Q', -1 }, { SFC_CALC_NORM_MAX_ALL_CHANNELS, "CALC_NORM_MAX_ALL_CHANNELS", 'Q', -1 },
			{ SFC_GET_SIGNAL_MAX, "GET_SIGNAL_MAX", 'Q', sizeof (double) }, { SFC_GET_MAX_ALL_CHANNELS, "GET_MAX_ALL_CHANNELS", 'Q', -1 },
			{ SFC_SET_ADD_PEAK_CHUNK, "SET_ADD_PEAK_CHUNK", 'M', 0 }, { SFC_UPDATE_HEADER_NOW, "UPDATE_HEADER_NOW", 'X', 0 }, { SFC_SET_UPDATE_HEADER_AUTO, "SET_UPDATE_HEADER_AUTO", 'S', 0 },
			{ SFC_FILE_TRUNCATE, "FILE_TRUNCATE", 'X', sizeof (sf_count_t) }, { SFC_SET_RAW_START_OFFSET, "SET_RAW_START_OFFSET", 'X', sizeof (sf_count_t) },
			{ SFC_SET_DITHER_ON_WRITE, "SET_DITHER_ON_WRITE", 'S', sizeof (SF_DITHER_INFO) }, { SFC_SET_DITHER_ON_READ, "SET_DITHER_ON_READ", 'S', sizeof (SF_DITHER_INFO) },
			{ SFC_GET_DITHER_INFO_COUNT, "GET_DITHER_INFO_COUNT", 'Q', sizeof (int) }, { SFC_GET_DITHER_INFO, "GET_DITHER_INFO", 'Q', sizeof (SF_DITHER_INFO) },
			{ SFC_GET_EMBED_FILE_INFO, "GET_EMBED_FILE_INFO", 'Q', sizeof (SF_EMBED_FILE_INFO) }, { SFC_SET_CLIPPING, "SET_CLIPPING", 'S', 0 }, { SFC_GET_CLIPPING, "GET_CLIPPING", 'Q', 0 },
			{ SFC_GET_CUE_COUNT, "GET_CUE_COUNT", 'Q', sizeof (uint32_t) }, { SFC_GET_CUE, "GET_CUE", 'Q', sizeof (SF_CUES) }, { SFC_SET_CUE, "SET_CUE", 'M', sizeof (SF_CUES) },
			{ SFC_GET_INSTRUMENT, "GET_INSTRUMENT", 'Q', sizeof (SF_INSTRUMENT) }, { SFC_SET_INSTRUMENT, "SET_INSTRUMENT", 'M', sizeof (SF_INSTRUMENT) }, { SFC_GET_LOOP_INFO, "GET_LOOP_INFO", 'Q', sizeof (SF_LOOP_INFO) },
			{ SFC_GET_BROADCAST_INFO, "GET_BROADCAST_INFO", 'Q', sizeof (SF_BROADCAST_INFO) }, { SFC_SET_BROADCAST_INFO, "SET_BROADCAST_INFO", 'M', sizeof (SF_BROADCAST_INFO) },
			{ SFC_GET_CHANNEL_MAP_INFO, "GET_CHANNEL_MAP_INFO", 'Q', -2 }, { SFC_SET_CHANNEL_MAP_INFO, "SET_CHANNEL_MAP_INFO", 'M', -2 }, { SFC_RAW_DATA_NEEDS_ENDSWAP, "RAW_DATA_NEEDS_ENDSWAP", 'Q', 0 },
			{ SFC_WAVEX_SET_AMBISONIC, "WAVEX_SET_AMBISONIC", 'S', 0 }, { SFC_WAVEX_GET_AMBISONIC, "WAVEX_GET_AMBISONIC", 'Q', 0 }, { SFC_RF64_AUTO_DOWNGRADE, "RF64_AUTO_DOWNGRADE", 'S', 0 },
			{ SFC_SET_VBR_ENCODING_QUALITY, "SET_VBR_ENCODING_QUALITY", 'S', sizeof (double) }, { SFC_SET_COMPRESSION_LEVEL, "SET_COMPRESSION_LEVEL", 'S', sizeof (double) },
			{ SFC_SET_OGG_PAGE_LATENCY_MS, "SET_OGG_PAGE_LATENCY_MS", 'S', sizeof (double) }, { SFC_SET_OGG_PAGE_LATENCY, "SET_OGG_PAGE_LATENCY", 'S', sizeof (double) },
			{ SFC_GET_OGG_STREAM_SERIALNO, "GET_OGG_STREAM_SERIALNO", 'Q', sizeof (int32_t) }, { SFC_GET_BITRATE_MODE, "GET_BITRATE_MODE", 'Q', sizeof (int) }, { SFC_SET_BITRATE_MODE, "SET_BITRATE_MODE", 'S', sizeof (int) },
			{ SFC_SET_CART_INFO, "SET_CART_INFO", 'M', sizeof (SF_CART_INFO) }, { SFC_GET_CART_INFO, "GET_CART_INFO", 'Q', sizeof (SF_CART_INFO) },
			{ SFC_SET_ORIGINAL_SAMPLERATE, "SET_ORIGINAL_SAMPLERATE", 'S', sizeof (int) }, { SFC_GET_ORIGINAL_SAMPLERATE, "GET_ORIGINAL_SAMPLERATE", 'Q', sizeof (int) },
			{ SFC_TEST_IEEE_FLOAT_REPLACE, "TEST_IEEE_FLOAT_REPLACE", 'S', 0 }, { SFC_SET_ADD_HEADER_PAD_CHUNK, "SET_ADD_HEADER_PAD_CHUNK", 'S', 0 },
			{ SFC_SET_ADD_DITHER_ON_WRITE, "SET_ADD_DITHER_ON_WRITE", 'S', 0 }, { SFC_SET_ADD_DITHER_ON_READ, "SET_ADD_DITHER_ON_READ", 'S', 0 },
			{ 0, "UNDEF_0", 'U', 0 }, { 0x0FFF, "UNDEF_0FFF", 'U', 8 }, { 0x7FFFFFFF, "UNDEF_MAX", 'U', 8 }, { -1, "UNDEF_NEG", 'U', 8 }, { 0x1234, "UNDEF_1234", 'U', 16 } } ;
		return t ;
	}

	void op_storm (Task &t, const J &op, Rec &r)
	{	const std::vector<CmdSpec> &tab = cmd_table () ;
		const CmdSpec &c = tab [(size_t) op.geti ("cmd", 0) % tab.size ()] ;
		bool null_handle = op.geti ("null_handle", 0) != 0 ;
		if (!null_handle && !t.sf) { r.skipped = true ; return ; }
		if (op.geti ("pure", 0) && c.cls != 'Q') { r.skipped = true ; return ; }
		int ch = t.ch > 0 ? t.ch : 1 ;
		int nat = c.size >= 0 ? c.size : c.size == -1 ? ch * 8 : ch * 4 ;
		int64_t dv = op.geti ("dsz", 3) ;		// datasize variant
		int datasize = dv == 0 ? 0 : dv == 1 ? 1 : dv == 2 ? (nat > 0 ? nat - 1 : 0) : dv == 3 ? nat : dv == 4 ? nat + 1 : dv == 5 ? nat + 8 : dv == 6 ? 4096 : dv == 7 ? 70000 : (int) (dv % 700) ;
		// sizes that are also values of the enumerations some SET commands take in this argument (a GET must not read them as one)
		if (dv == 100064) datasize = SF_AMBISONIC_NONE ; else if (dv == 100065) datasize = SF_AMBISONIC_B_FORMAT ;
		else if (dv >= 200000)
		{	// a buffer that ends at, or one to three bytes behind, the start of a field of the structure the command fills in
			static const std::map<int, std::vector<int>> fields = {
				{ SFC_GET_CART_INFO, { (int) offsetof (SF_CART_INFO, title), (int) offsetof (SF_CART_INFO, artist), (int) offsetof (SF_CART_INFO, out_cue), (int) offsetof (SF_CART_INFO, level_reference),
					(int) offsetof (SF_CART_INFO, post_timers), (int) offsetof (SF_CART_INFO, url), (int) offsetof (SF_CART_INFO, tag_text_size), (int) offsetof (SF_CART_INFO, tag_text) } },
				{ SFC_GET_BROADCAST_INFO, { (int) offsetof (SF_BROADCAST_INFO, originator), (int) offsetof (SF_BROADCAST_INFO, origination_date), (int) offsetof (SF_BROADCAST_INFO, time_reference_low),
					(int) offsetof (SF_BROADCAST_INFO, version), (int) offsetof (SF_BROADCAST_INFO, umid), (int) offsetof (SF_BROADCAST_INFO, coding_history_size), (int) offsetof (SF_BROADCAST_INFO, coding_history) } },
				{ SFC_GET_INSTRUMENT, { (int) offsetof (SF_INSTRUMENT, basenote), (int) offsetof (SF_INSTRUMENT, loop_count), (int) offsetof (SF_INSTRUMENT, loops), (int) (offsetof (SF_INSTRUMENT, loops) + sizeof (int) * 4) } },
				{ SFC_GET_CUE, { 4, 4 + (int) sizeof (SF_CUE_POINT), 4 + 2 * (int) sizeof (SF_CUE_POINT), 4 + 99 * (int) sizeof (SF_CUE_POINT) } },
				{ SFC_GET_LOOP_INFO, { (int) offsetof (SF_LOOP_INFO, time_sig_den), (int) offsetof (SF_LOOP_INFO, num_beats), (int) offsetof (SF_LOOP_INFO, bpm), (int) offsetof (SF_LOOP_INFO, future) } },
				{ SFC_GET_FORMAT_INFO, { (int) offsetof (SF_FORMAT_INFO, name), (int) offsetof (SF_FORMAT_INFO, extension) } },
				{ SFC_GET_EMBED_FILE_INFO, { (int) offsetof (SF_EMBED_FILE_INFO, length) } },
				{ SFC_GET_CURRENT_SF_INFO, { (int) offsetof (SF_INFO, samplerate), (int) offsetof (SF_INFO, format), (int) offsetof (SF_INFO, seekable) } } } ;
			auto fi = fields.find (c.id) ;
			datasize = fi == fields.end () ? nat : fi->second [(size_t) ((dv - 200000) / 4) % fi->second.size ()] + (int) ((dv - 200000) % 4) ;
			probe ("storm_field_boundary_datasize") ;
		}
		if (datasize < 0) datasize = 0 ;
		bool null_data = op.geti ("null_data", 0) != 0 ;
		// mutators are injected only where the caller asked for "any" commands; their arguments are kept harmless
		uint8_t *buf = null_data ? nullptr : (uint8_t *) malloc (datasize ? (size_t) datasize : 1) ;
		if (buf) for (int k = 0 ; k < datasize ; k++) buf [k] = (uint8_t) (mix3 (key, 0x5707, (uint64_t) (k + op.geti ("fill", 0))) % 3) ;		// small values: indices / flags stay plausible
		// 64-bit frame / byte counts (truncate position, raw start offset): keep the upper six bytes zero. An offset of 10^17 makes the
		// kernel refuse every later seek (EINVAL beyond s_maxbytes) and the purity clause would then judge queries under failing I/O,
		// which is C15's subject, not C17's.
		if (buf && (c.id == SFC_FILE_TRUNCATE || c.id == SFC_SET_RAW_START_OFFSET)) for (int k = 2 ; k < datasize ; k++) buf [k] = 0 ;
		if (buf && c.id == SFC_FILE_TRUNCATE) { free (buf) ; r.skipped = true ; return ; }
		Snap s0 ; if (!null_handle) s0 = snap (t) ;
		r.api = std::string ("storm:") + c.name ;
		os.begin_op (t.id, (int) t.pc, "sf_command", budget_for (t, 0) + (t.frames > 0 ? 64 * t.frames : 0)) ;
		GUARD (t, r) ;
		int rc = sf_command (null_handle ? nullptr : t.sf, c.id, buf, datasize) ;
		r.ret = rc ; r.err = null_handle ? 0 : sf_error (t.sf) ;
		if ((c.id == SFC_GET_LIB_VERSION || c.id == SFC_GET_LOG_INFO) && buf && datasize >= 1)
		{	bool nul = false ; for (int k = 0 ; k < datasize ; k++) if (buf [k] == 0) { nul = true ; break ; }
			if (!nul) { after_call (t, r) ; viol (t, "storm.nul", c.name, "string-returning command left no NUL within datasize") ; free (buf) ; return ; }
		}
		r.dh = (uint64_t) c.id * 1000003ULL + (uint64_t) datasize * 31 + (null_data ? 7 : 0) ;
		after_call (t, r) ;
		probe ("storm_commands") ;
		if (dv != 3) probe ("storm_inexact_datasize") ;
		if (!null_handle && c.cls == 'Q' && !t.stop && !t.faulted)
		{	Snap s1 = snap (t) ;
			std::string d = snap_diff (s0, s1) ;
			if (!d.empty ()) { char b [200] ; snprintf (b, sizeof (b), "query command %s (datasize %d) changed %s", c.name, datasize, d.c_str ()) ; viol (t, "storm.pure", std::string (c.name) + ":" + d + (t.mode == SFM_RDWR ? "+rdwr" : t.mode == SFM_WRITE ? "+write" : ""), b) ; }
		}
		if (!null_handle && c.cls != 'Q' && t.sf)
		{	// a switch or mutator may legitimately change settings: resynchronise the position model from the handle
			Digest d = digest (t) ; if (d.ok) { sync_pos (t, d) ; }
			if (c.cls == 'M' || c.cls == 'X') { sm [t.store].clean = false ; }
		}
		free (buf) ;
	}

	bool step (Task &t) ;
	void run () ;
} ;

bool Exec::step (Task &t)
{	if (t.done ()) return false ;
	const J &op = (*t.ops) [t.pc] ;
	Rec r ;
	std::string kind = op.gets ("op") ;
	if (kind == "open") op_open (t, op, r, false) ;
	else if (kind == "reopen") op_open (t, op, r, true) ;
	else if (kind == "close") do_close (t, r) ;
	else if (kind == "read") op_read (t, op, r) ;
	else if (kind == "write") op_write (t, op, r) ;
	else if (kind == "seek") op_seek (t, op, r) ;
	else if (kind == "cmd") op_cmd (t, op, r) ;
	else if (kind == "clock") op_clock (t, op, r) ;
	else if (kind == "setstr") op_setstr (t, op, r) ;
	else if (kind == "getstr") op_getstr (t, op, r) ;
	else if (kind == "setbext") op_setbext (t, op, r) ;
	else if (kind == "getbext") op_getbext (t, op, r) ;
	else if (kind == "setcart") op_setcart (t, op, r) ;
	else if (kind == "getcart") op_getcart (t, op, r) ;
	else if (kind == "setcues") op_setcues (t, op, r) ;
	else if (kind == "getcues") op_getcues (t, op, r) ;
	else if (kind == "setinstr") op_setinstr (t, op, r) ;
	else if (kind == "getinstr") op_getinstr (t, op, r) ;
	else if (kind == "setchanmap") op_setchanmap (t, op, r) ;
	else if (kind == "getchanmap") op_getchanmap (t, op, r) ;
	else if (kind == "setchunk") op_setchunk (t, op, r) ;
	else if (kind == "iterchunks") op_iterchunks (t, op, r) ;
	else if (kind == "query") op_query (t, op, r) ;
	else if (kind == "corrupt") op_corrupt (t, op, r) ;
	else if (kind == "crash") op_crash (t, op, r) ;
	else if (kind == "bad") op_bad (t, op, r) ;
	else if (kind == "storm") op_storm (t, op, r) ;
	else if (kind == "badopen") op_badopen (t, op, r) ;
	else r.skipped = true ;
	r.frames = t.sf ? t.frames : -1 ;
	res.transcript [t.id].push_back (r) ;
	if (tasks.size () > 1) check_isolation (t) ;
	t.pc ++ ;
	return true ;
}

void Exec::run ()
{	os.reset () ;
	key = (uint64_t) plan.geti ("seed", 1) ;
	const J &cfg = plan.at ("cfg") ;
	os.clock_off = cfg.geti ("clock", 0) ;
	os.fd_zero = cfg.geti ("fd0", 0) != 0 ;
	// every execution starts library calls on known memory: a printable letter chosen by the plan (stale bytes that leak into strings,
	// headers or samples then show up in the value oracles); differential oracles pass two different values explicitly
	os.mem_fill = opts.mem_fill >= 0 ? opts.mem_fill : (int) ('A' + key % 26) ;
	os.passthrough = opts.passthrough ; os.pt_root = opts.pt_root ; os.pt_synced.clear () ;
	if (os.passthrough) os.pt_wipe () ;
	os.trace_io_enabled = opts.io_trace ;
	os.record_io = opts.record_io ;
	if (opts.preload) for (auto &kv : *opts.preload) { SimFileP f = os.file (kv.first, true) ; f->data = kv.second ; }
	const J &io = plan.at ("io") ;
	if (io.is_obj ())
	{	const J &c = io.at ("chunks") ;
		for (size_t k = 0 ; k < c.size () ; k++) os.fd_chunks.push_back ((int) c [k].num ()) ;
		os.eintr_every = (int) io.geti ("eintr_every", 0) ;
	}
	const J &fl = plan.at ("faults") ;
	for (size_t k = 0 ; k < fl.size () ; k++)
	{	Fault f ; const J &j = fl [k] ;
		f.task = (int) j.geti ("task", 0) ; f.op = (int) j.geti ("op", 0) ; f.io = (int) j.geti ("io", 1) ;
		f.kind = fault_from_name (j.gets ("kind")) ; f.arg = j.geti ("arg", 0) ; f.persistent = j.geti ("persistent", 0) != 0 ;
		if (f.kind != F_NONE) os.faults.push_back (f) ;
	}
	const J &tl = plan.at ("tasks") ;
	tasks.resize (tl.size ()) ;
	res.transcript.resize (tl.size ()) ;
	for (size_t k = 0 ; k < tl.size () ; k++) { tasks [k].id = (int) k ; tasks [k].ops = &tl [k].at ("ops") ; if (!tasks [k].ops->is_arr ()) tasks [k].ops = nullptr ; }
	const J &sched = plan.at ("sched") ;
	size_t si = 0, rr = 0 ;
	for (;;)
	{	size_t alive = 0 ; for (auto &t : tasks) if (!t.done ()) alive ++ ;
		if (!alive) break ;
		size_t pick ;
		if (si < sched.size ()) pick = (size_t) sched [si ++].num () % tasks.size () ;
		else pick = rr ++ % tasks.size () ;
		size_t guard = 0 ;
		while (tasks [pick].done () && guard ++ < tasks.size ()) pick = (pick + 1) % tasks.size () ;
		step (tasks [pick]) ;
	}
	for (auto &t : tasks)
		if (t.sf) { Rec r ; do_close (t, r) ; res.transcript [t.id].push_back (r) ; }
	if (!crashes.empty ()) finish_crashes () ;
	// resource audit (C16 clauses) once every handle has ended (not after an abandoned call: its memory is still live)
	if (!res.budget_hit) os.leak_audit (res.audit) ;
	for (auto &a : res.audit)
	{	Viol v ; v.clause = a.compare (0, 5, "heap:") == 0 ? "audit.heap" : a.compare (0, 3, "fd:") == 0 ? "audit.fd" : a.compare (0, 4, "tmp:") == 0 ? "audit.tmp" : "audit.other" ;
		v.disc = "-" ; v.detail = a ; v.fmt = "-" ; v.fault = "none" ;
		if (!tasks.empty ())
		{	Task &t0 = tasks [0] ;
			v.fmt = t0.fmt ? t0.fmt->name : "-" ; v.route = t0.route ;
			bool anyf = false ; for (auto &t : tasks) anyf = anyf || t.faulted ;
			v.fault = anyf ? fault_name (os.last_fault_kind) : "none" ;
		}
		res.viols.push_back (v) ;
	}
	if (opts.keep_stores)
		for (auto &kv : os.ns) res.stores [kv.first] = kv.second->data ;
	res.trace = os.trace ;
	res.io = os.st ;
	res.io_log = os.io_log ;
	if (os.have_fault_snapshot) { res.have_fault_snapshot = true ; res.fault_snapshot = os.fault_snapshot ; }
	for (auto &kv : sm) res.dataoffsets [kv.first] = kv.second.dataoffset ;
	res.lib_allocs = os.lib_allocs ;
	res.clock_span = os.clock_off ;
	for (int k = 0 ; k < F_KIND_COUNT ; k++) if (os.st.faults_fired [k]) res.probes [std::string ("fault_fired:") + fault_name (k)] += os.st.faults_fired [k] ;
	if (os.st.eintr_absorbed) res.probes ["eintr_absorbed"] += os.st.eintr_absorbed ;
	if (os.st.short_loops) res.probes ["short_transfer_looped"] += os.st.short_loops ;
	if (os.st.odd_requests) res.probes ["odd_request"] += os.st.odd_requests ;
	if (os.chatter) res.probes ["stdout_chatter_swallowed"] += os.chatter ;
	// drop the ledger etc. for the next plan
	os.ledger.clear () ;
}

} // namespace

Result execute (const J &plan, const ExecOpts &opts)
{	Exec e (plan, opts) ;
	e.run () ;
	return std::move (e.res) ;
}
