# properties that are designed (DESIGN.md section 3) but whose check is not built yet are listed as pending
CHECKS = {}
PENDING = {p: 'check designed in DESIGN.md section 3 but not built yet in this revision (to be claimed when its profile exists)' for p in
           ['C03', 'C07', 'C08', 'C09', 'C11', 'C12', 'C13', 'C14', 'C15', 'C16', 'C17', 'C18', 'C19']}
