#include "profiles.hpp"
#include <cstring>

void Verdict::absorb (const Result &r)
{	for (auto &kv : r.probes) probes [kv.first] += kv.second ;
	states.insert (r.states.begin (), r.states.end ()) ;
	io_steps += r.io.steps ; api_calls += r.api_calls ; execs ++ ;
	if (r.clock_span > clock_span) clock_span = r.clock_span ;
	hash = (hash ^ r.trace) * 1099511628211ULL ;
	parts.push_back (r.trace) ;
	for (auto &t : r.transcript) { hash = (hash ^ transcript_hash (t)) * 1099511628211ULL ; parts.push_back (transcript_hash (t)) ; }
	for (auto &kv : r.stores) { hash = (hash ^ fnv1a (kv.second.data (), kv.second.size ())) * 1099511628211ULL ; parts.push_back (fnv1a (kv.second.data (), kv.second.size ())) ; }
	for (auto &v : r.viols) hash = fnv1a (v.clause.data (), v.clause.size (), hash) ;
}

std::string make_sig_raw (const std::string &prop, const std::string &clause, const std::string &fmt, const std::string &route, const std::string &fault, const std::string &disc)
{	std::string cont = "-", codec = "-" ;
	size_t a = fmt.find ('/') ;
	if (a != std::string::npos)
	{	cont = fmt.substr (0, a) ;
		size_t b = fmt.find ('/', a + 1) ;
		codec = fmt.substr (a + 1, b == std::string::npos ? std::string::npos : b - a - 1) ;
		// a big-endian WAV is a different on-disk dialect (RIFX) with its own header writers
		if (cont == "WAV" && b != std::string::npos && fmt.compare (b + 1, std::string::npos, "BIG") == 0) cont = "WAV(RIFX)" ;
	}
	return prop + "." + clause + "|" + cont + "|" + codec + "|" + (route.empty () ? "-" : route) + "|" + (fault.empty () ? "none" : fault) + "|" + (disc.empty () ? "-" : disc) ;
}

std::string make_sig (const std::string &prop, const std::string &clause, const Viol &v)
{	return make_sig_raw (prop, clause, v.fmt, v.route, v.fault, v.disc) ;
}

void add_owned (Verdict &v, const std::string &prop, const Result &r, const std::map<std::string, std::string> &owned)
{	for (auto &vi : r.viols)
	{	auto it = owned.find (vi.clause) ;
		if (it == owned.end ())
		{	// clause with discriminator specific ownership: "clause#disc"
			it = owned.find (vi.clause + "#" + vi.disc) ;
			if (it == owned.end ()) continue ;
		}
		Finding f ; f.sig = make_sig (prop, it->second, vi) ; f.detail = vi.detail ; f.task = vi.task ; f.op = vi.op ;
		v.findings.push_back (f) ;
	}
}

static uint64_t size_bucket (int64_t n)
{	if (n <= 3) return (uint64_t) n ;
	if (n < 64) return 4 + (n & 1) ;
	if (n < 1024) return 6 ;
	if (n < 4096) return 7 ;
	return 8 ;
}

uint64_t plan_shape (const J &plan)
{	uint64_t h = 1469598103934665603ULL ;
	const J &cfg = plan.at ("cfg") ;
	std::string s = plan.gets ("profile") + cfg.gets ("fmt") + cfg.gets ("route") + cfg.gets ("T") ;
	h = fnv1a (s.data (), s.size (), h) ;
	int64_t ch = cfg.geti ("ch", 1) ; h = (h ^ (uint64_t) (ch > 8 ? 9 : ch)) * 1099511628211ULL ;
	const J &tl = plan.at ("tasks") ;
	for (size_t t = 0 ; t < tl.size () ; t++)
	{	const J &ops = tl [t].at ("ops") ;
		for (size_t k = 0 ; k < ops.size () ; k++)
		{	const J &op = ops [k] ;
			std::string d = op.gets ("op") + op.gets ("mode") + op.gets ("T") + op.gets ("id") + op.gets ("kind") + op.gets ("fmt") ;
			h = fnv1a (d.data (), d.size (), h) ;
			h = (h ^ size_bucket (op.geti ("n", 0))) * 1099511628211ULL ;
			h = (h ^ (uint64_t) (op.geti ("whence", 0) * 4 + op.geti ("flag", 0) / 16 + op.geti ("fr", 0) * 64)) * 1099511628211ULL ;
		}
		h = (h ^ 0xabcdULL) * 1099511628211ULL ;
	}
	const J &fl = plan.at ("faults") ;
	for (size_t k = 0 ; k < fl.size () ; k++)
	{	std::string d = fl [k].gets ("kind") ; h = fnv1a (d.data (), d.size (), h) ;
		h = (h ^ (uint64_t) (fl [k].geti ("op") * 64 + (fl [k].geti ("io") > 8 ? 9 : fl [k].geti ("io")) + fl [k].geti ("persistent") * 32)) * 1099511628211ULL ;
	}
	const J &io = plan.at ("io") ;
	if (io.is_obj ()) { h = (h ^ (uint64_t) io.at ("chunks").size () * 31 + (uint64_t) io.geti ("eintr_every")) * 1099511628211ULL ; }
	return h ;
}

bool g_thorough = false ;

uint64_t sub_seed (uint64_t seed, const char *profile, uint64_t idx)
{	return mix3 (seed, fnv1a (profile, strlen (profile)), idx) ;
}

J plan_skeleton (const char *profile, uint64_t seed, uint64_t idx)
{	J p = J::obj () ;
	p ["profile"] = profile ;
	p ["seed"] = (long long) (sub_seed (seed, profile, idx) >> 1) ;
	p ["idx"] = (long long) idx ;
	p ["cfg"] = J::obj () ;
	p ["tasks"] = J::arr () ;
	return p ;
}

int GenCtx::pick_channels (const Fmt &f, int rate)
{	for (int tries = 0 ; tries < 8 ; tries ++)
	{	int ch ;
		uint64_t r = rng.below (100) ;
		// the usual counts, the container's maximum, and (15 %) any count up to 16: 5, 7 and 9..15 divide none of the staging buffer sizes
		if (r < 38) ch = 1 ; else if (r < 58) ch = 2 ; else if (r < 66) ch = 3 ; else if (r < 72) ch = 4 ;
		else if (r < 77) ch = 6 ; else if (r < 82) ch = 8 ; else if (r < 85) ch = f.max_ch ; else ch = (int) rng.range (1, f.max_ch > 16 ? 16 : f.max_ch) ;
		if (ch > f.max_ch) ch = f.max_ch ;
		if (ch > 64 && !f.sample_granular ()) ch = f.max_ch > 2 ? 2 : f.max_ch ;
		if (valid_channels (f, ch, rate)) return ch ;
	}
	for (int ch = 1 ; ch <= 2 ; ch ++) if (valid_channels (f, ch, rate)) return ch ;
	return 1 ;
}

int GenCtx::pick_rate (const Fmt &f, bool wide)
{	static const int common [] = { 8000, 11025, 22050, 44100, 48000, 96000 } ;
	static const int odd [] = { 1, 7, 8000, 11025, 44100, 48000, 96000, 65535, 65536, 16777217, 2147483647, 12345, 192000 } ;
	for (int tries = 0 ; tries < 8 ; tries ++)
	{	int r = (wide && rng.chance (0.5)) ? odd [rng.below (sizeof (odd) / sizeof (odd [0]))] : common [rng.below (6)] ;
		if (rate_model (f, r, 1) == -1) continue ;		// not representable in this container's rate field
		if (valid_channels (f, 1, r) || valid_channels (f, 2, r)) return r ;
	}
	return 8000 ;
}

int64_t GenCtx::pick_frames (int B, int ch, int64_t cap)
{	int64_t n ;
	uint64_t r = rng.below (100) ;
	if (r < 12) n = 1 ;
	else if (r < 18) n = 2 ;
	else if (r < 24) n = 3 ;
	else if (r < 40) n = 5 + 2 * (int64_t) rng.below (48) ;			// odd
	else if (r < 58 && B > 1) { int64_t c [] = { B - 1, B, B + 1, 2 * B + 1, 2 * B - 1, 3 * B } ; n = c [rng.below (6)] ; }
	else if (r < 80)
	{	int64_t items [] = { 1023, 1024, 1025, 2047, 2048, 2049, 4095, 4096, 4097, 8191, 8192, 8193 } ;
		int64_t it = items [rng.below (12)] ;
		n = rng.chance (0.5) ? it / ch : (it + ch - 1) / ch ;
		if (n < 1) n = 1 ;
	}
	else n = rng.range (1, 700) ;
	if (cap >= 0 && n > cap) n = cap ;
	return n ;
}

std::string GenCtx::pick_class (bool is_real)
{	uint64_t r = rng.below (100) ;
	if (r < 30) return "noise" ;
	if (r < 38) return "spikes" ;
	if (r < 50) return "extremes" ;
	if (r < 62) return "ramp" ;
	if (r < 74) return "sine" ;
	if (r < 80) return "zeros" ;
	if (is_real) return r < 90 ? "pm1_edges" : "ties" ;
	return "lowzero" ;
}

std::string GenCtx::pick_route (const Fmt &f, bool allow_fd)
{	if (needs_path_route (f)) return "path" ;
	if (!allow_fd) return "vio" ;
	uint64_t r = rng.below (100) ;
	return r < 50 ? "vio" : r < 70 ? "fd" : r < 80 ? "fdnc" : "path" ;
}

void gen_benign_io (GenCtx &g, J &plan)
{	J io = J::obj () ;
	J chunks = J::arr () ;
	int n = (int) g.rng.range (1, 4) ;
	static const int cs [] = { 1, 2, 3, 7, 64, 4095, 4096, 4097, 0 } ;
	for (int k = 0 ; k < n ; k++) chunks.push (cs [g.rng.below (9)]) ;
	io ["chunks"] = chunks ;
	if (g.rng.chance (0.5)) io ["eintr_every"] = (int) g.rng.range (2, 9) ;
	plan ["io"] = io ;
}


// ------------------------------------------------------------------------------------------
// Initial-memory differential. Every execution fills fresh library heap blocks and the unused stack below each library call with a
// printable letter chosen by the plan; here the same plan runs once more with a non-printable byte instead. What the calls return
// (counts, errors, hashes of returned data and strings) and every byte the library stored must be the same: a difference means
// uninitialised memory reached a result or the file ("repeating the run later or in another process yields byte-identical files",
// "independent of what the library did earlier in the same process").
void memory_differential (Verdict &v, const char *prop, const J &plan, const Result &r0)
{	ExecOpts mo ; mo.mem_fill = 0x80 | (int) (plan.geti ("seed") & 0x3f) ;
	Result rm = execute (plan, mo) ;
	v.absorb (rm) ;
	v.probes ["memory_differential"] ++ ;
	std::string where ;
	for (size_t t = 0 ; where.empty () && t < r0.transcript.size () && t < rm.transcript.size () ; t++)
		for (size_t o = 0 ; o < r0.transcript [t].size () && o < rm.transcript [t].size () ; o++)
		{	const Rec &x = r0.transcript [t][o], &y = rm.transcript [t][o] ;
			if (x.ret != y.ret || x.err != y.err || x.dh != y.dh)
			{	char b [240] ; snprintf (b, sizeof (b), "task %zu op %zu (%s): ret %lld/%lld err %d/%d data %llx/%llx", t, o, x.api.c_str (), (long long) x.ret, (long long) y.ret, x.err, y.err, (unsigned long long) x.dh, (unsigned long long) y.dh) ;
				where = b ; break ;
			}
		}
	std::string disc = "results" ;
	if (where.empty ())
		for (auto &kv : r0.stores)
		{	auto it = rm.stores.find (kv.first) ;
			if (it == rm.stores.end () || it->second.size () != kv.second.size ()) { where = kv.first + ": size differs" ; disc = "bytes" ; break ; }
			for (size_t k = 0 ; k < kv.second.size () ; k++) if (kv.second [k] != it->second [k]) { where = kv.first + ": first difference at byte " + std::to_string (k) + " of " + std::to_string (kv.second.size ()) ; disc = "bytes" ; break ; }
			if (!where.empty ()) break ;
		}
	if (where.empty ()) return ;
	Finding fd ; fd.sig = make_sig_raw (prop, "memory", plan.at ("cfg").gets ("fmt"), plan.at ("cfg").gets ("route"), "none", disc) ;
	fd.detail = "same calls on different initial memory (fresh heap blocks / unused stack hold another byte): " + where ;
	v.findings.push_back (fd) ;
}


// ------------------------------------------------------------------------------------------
// Fresh-process oracle (C19: "compared with running each script alone in a fresh process"). A zygote is forked before this process
// ever calls the library; it serves requests by forking a grandchild, which executes the plan and sends the hashes back. Library
// statics (lookup tables filled on first use, counters, static buffers) are in their initial state there, whatever this process did.
#include <unistd.h>
#include <sys/wait.h>
#include <signal.h>

static int g_zy_req = -1, g_zy_rsp = -1 ;

void result_hashes (const Result &r, std::vector<uint64_t> &hashes)
{	hashes.clear () ;
	for (auto &t : r.transcript) hashes.push_back (transcript_hash (t)) ;
	for (auto &kv : r.stores) hashes.push_back (fnv1a (kv.second.data (), kv.second.size ())) ;
}

static bool read_all (int fd, void *buf, size_t n) { char *p = (char *) buf ; while (n) { ssize_t k = read (fd, p, n) ; if (k <= 0) return false ; p += k ; n -= (size_t) k ; } return true ; }
static bool write_all (int fd, const void *buf, size_t n) { const char *p = (const char *) buf ; while (n) { ssize_t k = write (fd, p, n) ; if (k <= 0) return false ; p += k ; n -= (size_t) k ; } return true ; }

void init_zygote ()
{	if (g_zy_req >= 0) return ;
	int a [2], b [2] ;
	if (pipe (a) != 0 || pipe (b) != 0) return ;
	pid_t z = fork () ;
	if (z < 0) return ;
	if (z == 0)
	{	close (a [1]) ; close (b [0]) ;
		signal (SIGPIPE, SIG_DFL) ;
		for (;;)
		{	uint64_t len = 0 ;
			if (!read_all (a [0], &len, sizeof (len)) || len == 0 || len > (1u << 26)) _exit (0) ;
			std::string text (len, 0) ;
			if (!read_all (a [0], &text [0], len)) _exit (0) ;
			int c [2] ; if (pipe (c) != 0) _exit (0) ;
			pid_t g = fork () ;
			if (g == 0)
			{	close (c [0]) ;
				std::vector<uint64_t> h ;
				try { J plan = J::parse (text) ; extern SimOS *g_os ; if (!g_os) g_os = new SimOS ; Result r = execute (plan) ; result_hashes (r, h) ; } catch (...) { h.clear () ; }
				uint64_t n = h.size () ; write_all (c [1], &n, sizeof (n)) ; if (n) write_all (c [1], h.data (), n * sizeof (uint64_t)) ;
				_exit (0) ;
			}
			close (c [1]) ;
			uint64_t n = 0 ; std::vector<uint64_t> h ;
			if (g > 0 && read_all (c [0], &n, sizeof (n)) && n < 4096) { h.resize (n) ; if (n && !read_all (c [0], h.data (), n * sizeof (uint64_t))) h.clear () ; } else n = 0 ;
			close (c [0]) ;
			if (g > 0) { int st ; waitpid (g, &st, 0) ; }
			n = h.size () ; uint64_t ok = n ? n : (uint64_t) -1 ;
			if (!write_all (b [1], &ok, sizeof (ok))) _exit (0) ;
			if (n && !write_all (b [1], h.data (), n * sizeof (uint64_t))) _exit (0) ;
		}
	}
	close (a [0]) ; close (b [1]) ;
	g_zy_req = a [1] ; g_zy_rsp = b [0] ;
}

bool fresh_execute (const J &plan, std::vector<uint64_t> &hashes)
{	hashes.clear () ;
	if (g_zy_req < 0) return false ;
	std::string text = plan.dump () ;
	uint64_t len = text.size () ;
	if (!write_all (g_zy_req, &len, sizeof (len)) || !write_all (g_zy_req, text.data (), len)) return false ;
	uint64_t n = 0 ;
	if (!read_all (g_zy_rsp, &n, sizeof (n)) || n == (uint64_t) -1 || n > 4096) return false ;
	hashes.resize (n) ;
	return n == 0 || read_all (g_zy_rsp, hashes.data (), n * sizeof (uint64_t)) ;
}
