// Seeded PRNG (xoshiro256**) and counter-based hash. The only randomness source of the generators.
#pragma once
#include <cstdint>
#include <vector>
#include <initializer_list>

static inline uint64_t splitmix64 (uint64_t &x)
{	uint64_t z = (x += 0x9e3779b97f4a7c15ULL) ;
	z = (z ^ (z >> 30)) * 0xbf58476d1ce4e5b9ULL ;
	z = (z ^ (z >> 27)) * 0x94d049bb133111ebULL ;
	return z ^ (z >> 31) ;
}

static inline uint64_t mix3 (uint64_t a, uint64_t b, uint64_t c)
{	uint64_t x = a * 0x9e3779b97f4a7c15ULL ^ (b + 0x7f4a7c15ULL) * 0xbf58476d1ce4e5b9ULL ^ (c + 0x1ce4e5b9ULL) * 0x94d049bb133111ebULL ;
	uint64_t s = x ;
	splitmix64 (s) ;
	return splitmix64 (s) ;
}

static inline uint64_t fnv1a (const void *p, size_t n, uint64_t h = 1469598103934665603ULL)
{	const unsigned char *u = (const unsigned char *) p ;
	for (size_t k = 0 ; k < n ; k++) { h ^= u [k] ; h *= 1099511628211ULL ; }
	return h ;
}

struct Rng
{	uint64_t s [4] ;
	explicit Rng (uint64_t seed = 1) { reseed (seed) ; }
	void reseed (uint64_t seed) { uint64_t x = seed ; for (auto &v : s) v = splitmix64 (x) ; }
	static inline uint64_t rotl (uint64_t x, int k) { return (x << k) | (x >> (64 - k)) ; }
	uint64_t next ()
	{	uint64_t r = rotl (s [1] * 5, 7) * 9, t = s [1] << 17 ;
		s [2] ^= s [0] ; s [3] ^= s [1] ; s [1] ^= s [2] ; s [0] ^= s [3] ; s [2] ^= t ; s [3] = rotl (s [3], 45) ;
		return r ;
	}
	// uniform in [0, n)
	uint64_t below (uint64_t n) { return n ? next () % n : 0 ; }
	// uniform in [lo, hi]
	int64_t range (int64_t lo, int64_t hi) { return hi <= lo ? lo : lo + (int64_t) below ((uint64_t) (hi - lo) + 1) ; }
	bool chance (double p) { return (next () >> 11) * (1.0 / 9007199254740992.0) < p ; }
	template <class T> const T &pick (const std::vector<T> &v) { return v [below (v.size ())] ; }
	template <class T> T pick (std::initializer_list<T> v) { return *(v.begin () + below (v.size ())) ; }
} ;
