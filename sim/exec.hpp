// Executor: maps a plan (JSON) to a trace, transcript, stores and oracle verdicts.
// Never draws a random number, never reads a clock: a pure function of the plan and the code under test.
#pragma once
#include <map>
#include <set>
#include <string>
#include <vector>
#include "json.hpp"
#include "simos.hpp"
#include "formats.hpp"

// mirror of the enum in the guarded hook (src/sndfile.c, LIBSNDFILE_VERIF)
enum
{	DG_MODE = 0, DG_LAST_OP, DG_HAVE_WRITTEN, DG_ERROR,
	DG_READ_CURRENT, DG_WRITE_CURRENT, DG_FRAMES, DG_CHANNELS,
	DG_SAMPLERATE, DG_FORMAT, DG_SEEKABLE, DG_SECTIONS,
	DG_DATAOFFSET, DG_DATALENGTH, DG_DATAEND, DG_FILELENGTH,
	DG_FILEOFFSET, DG_BLOCKWIDTH, DG_BYTEWIDTH, DG_NORM_FLOAT,
	DG_NORM_DOUBLE, DG_ADD_CLIPPING, DG_FLOAT_INT_MULT, DG_SCALE_INT_FLOAT,
	DG_AUTO_HEADER, DG_HEADER_INDX, DG_HEADER_END, DG_HEADER_LEN,
	DG_STR_COUNT, DG_STR_HASH, DG_RCHUNKS_USED, DG_RCHUNKS_COUNT,
	DG_WCHUNKS_USED, DG_WCHUNKS_COUNT, DG_PEAK_HASH, DG_BEXT_HASH,
	DG_CART_HASH, DG_CUES_HASH, DG_INSTR_HASH, DG_CHANMAP_HASH,
	DG_IS_PIPE, DG_VIRTUAL_IO, DG_ENDIAN, DG_IEEE_REPLACE,
	DG_COUNT
} ;
extern "C" int sf_verif_state_digest (SNDFILE *sndfile, int64_t *out, int n) ;
extern "C" int sf_verif_check_invariants (SNDFILE *sndfile, char *why, int whylen) ;

struct Digest { int64_t v [DG_COUNT] ; bool ok = false ; } ;

struct Viol
{	std::string clause ;		// generic clause id, e.g. "read.data"
	std::string disc ;			// discriminator (small enum as text)
	std::string detail ;		// free text for humans
	std::string fmt ;			// format name of the handle
	std::string route ;
	std::string fault ;
	int task = 0, op = 0 ;
} ;

struct Rec
{	std::string api ;
	int64_t ret = 0 ;
	int err = 0 ;
	uint64_t dh = 0 ;			// digest of data returned / auxiliary value
	bool skipped = false ;
	bool faulted = false ;
	int64_t frames = -1 ;		// model frame count of the handle after the op
} ;

struct DataDesc
{	std::string cls = "noise" ;
	int k = 0 ;
	int64_t stream = 0 ;
	bool normals = false ;
} ;

struct Result
{	std::vector<std::vector<Rec>> transcript ;		// per task
	std::vector<Viol> viols ;
	std::map<std::string, std::vector<uint8_t>> stores ;
	uint64_t trace = 0 ;
	std::map<std::string, uint64_t> probes ;
	std::set<uint64_t> states ;						// abstract states reached (digest buckets)
	IoStats io ;
	uint64_t lib_allocs = 0 ;
	uint64_t api_calls = 0 ;
	int64_t clock_span = 0 ;
	std::vector<std::string> audit ;
	std::vector<J> obs ;								// observations of metadata / queries (task, op, kind, value)
	std::vector<SimOS::IoRec> io_log ;
	bool have_fault_snapshot = false ;
	std::map<std::string, std::vector<uint8_t>> fault_snapshot ;
	std::map<std::string, int64_t> dataoffsets ;
	bool budget_hit = false ;
	std::map<int, std::vector<uint64_t>> kept ;		// per task: items delivered by reads flagged "keep"
	J notes ;											// free-form per-profile facts (e.g. crash images)
	bool has (const std::string &clause) const { for (auto &v : viols) if (v.clause == clause) return true ; return false ; }
} ;

struct ExecOpts
{	bool keep_stores = true ;
	bool strict = true ;			// fault-free discipline: all model clauses on
	bool io_trace = true ;
	bool record_io = false ;
	int mem_fill = -1 ;				// initial-memory differential: byte that fresh library heap blocks and the unused stack hold (-1 = as is)
	bool passthrough = false ;		// validation of SimOS: system calls made by the library go to the real kernel (files mirrored under pt_root)
	std::string pt_root ;
	const std::map<std::string, std::vector<uint8_t>> *preload = nullptr ;		// stores present before the first op
} ;

Result execute (const J &plan, const ExecOpts &opts = ExecOpts ()) ;

// value generation shared with generators / oracles
uint64_t gen_bits (uint64_t key, int64_t idx, int T, const DataDesc &d, int lz) ;
void fill_buffer (void *buf, int T, int64_t items, uint64_t key, int64_t start_idx, const DataDesc &d, int lz) ;
DataDesc data_desc_from (const J &j) ;
J data_desc_to (const DataDesc &d) ;
uint64_t transcript_hash (const std::vector<Rec> &t) ;
