#!/usr/bin/env python3
# Summarise a sndsim run directory: findings grouped by (clause, container/codec), compact.
import json, sys, collections
d = sys.argv[1]; filt = sys.argv[2] if len(sys.argv) > 2 else ''
s = json.load(open(d + '/summary.json'))
st = s['stats']
print('%s evals=%d shapes=%d nontrivial=%d states=%d deaths=%d wall=%.1f' % (s['profile'], st['evals'], s['distinct_shapes'], s['distinct_nontrivial'], s['distinct_states'], s['deaths'], s['wall_s']))
fam = collections.defaultdict(lambda: [0, set(), None, None])
for g in s['signatures']:
    if filt and filt not in g['sig']: continue
    p = g['sig'].split('|')
    key = (p[0], p[1] + '/' + p[2])
    fam[key][0] += g['count']; fam[key][1].add(p[5] + '@' + p[3])
    if fam[key][2] is None: fam[key][2] = g['detail'][:140].replace('\n', ' '); fam[key][3] = g['idx']
for k, v in sorted(fam.items()):
    print('  %4d %-28s %-20s %s idx=%s :: %s' % (v[0], k[0], k[1], sorted(v[1])[:4], v[3], v[2]))
if '-p' in sys.argv:
    print(json.dumps(st['probes'], indent=1))
