#!/bin/sh
# rebuild the sanitized library from /repo and relink sndsim
cmake --build /verif/build/asan -j16 2>&1 | grep -E "error|FAILED" ; make -C /verif/sim -j16 2>&1 | grep -E "error:" ; true
