#!/usr/bin/env python3
# Regenerates /verif/MANIFEST.json from the table below (kept in one place so it stays valid).
import json, subprocess
CHECKS = {
 'C01': ('exploration', 'write-history -> close -> cold re-open on the simulated store, compared sample for sample with an in-memory vector model (durability of acknowledged writes across restart); seeded search over formats x types x partitions x routes x benign I/O schedules', '3 C01'),
 'C04': ('exploration', 'closed image vs frame-count / rate / format model (N <= F < N+B), read-to-EOF delivers exactly F; differential run with and without a stale SF_INFO.frames', '3 C04'),
 'C05': ('exploration', 'op-by-op position/count model over generated read/write histories with exact-size ASan-guarded caller buffers, sequential reference decode for data, and a differential fd-route run under benign short-transfer/EINTR schedules that must be invisible', '3 C05'),
 'C06': ('exploration', 'seek/read histories on one handle vs one sequential reference read on a second handle of the same simulated file', '3 C06'),
}
NA = [
 ('C02', 'pure function of (stored code, type pair, switches, build variant): no schedule, fault, clock or history in it; deciding it needs exhaustive enumeration of codes against formulas, which is not deterministic simulation'),
 ('C10', 'finite configuration grid and a pure predicate on SF_INFO: complete enumeration of the grid is bounded-exhaustive checking, not simulation'),
 ('C20', 'codec kernels are pure functions of their input; conformance needs exhaustive sweeps against independent reference codecs'),
]
PENDING = {}
import os, sys
sys.path.insert(0, os.path.dirname(__file__))
try:
    from manifest_table import CHECKS as C2, PENDING as P2
    CHECKS.update(C2); PENDING.update(P2)
except ImportError:
    pass
hooks = subprocess.run(['git', '-C', '/repo', 'log', '--format=%H %s'], capture_output=True, text=True).stdout.splitlines()
hook_commits = [l.split()[0] for l in hooks if l.split(' ', 1)[1].startswith('verif:')]
m = {
 'version': 1,
 'setup_cmd': './check setup',
 'hooks': {'guard': 'LIBSNDFILE_VERIF', 'enable': 'cmake -DCMAKE_C_FLAGS="... -DLIBSNDFILE_VERIF" into /verif/build/asan (done by ./check setup and re-built from /repo by every check)',
           'baseline_off_cmd': '/verif/tools/baseline_off.sh', 'source_commits': hook_commits, 'add_only': True},
 'engines': [{'name': 'sndsim', 'path': '/verif/sim', 'serves_properties': sorted(CHECKS), 'kind_free_text': 'deterministic simulator: SimOS (files, descriptors, FIFOs, clock, allocation ledger, fault injection) under the real libsndfile via SF_VIRTUAL_IO and link-time --wrap; seeded plan generators, PRNG-free executor, reference models, forked workers, ddmin shrinker, fresh-process replay'}],
 'checks': [],
 'not_applicable': [{'property_id': p, 'reason': r} for p, r in NA] + [{'property_id': p, 'reason': r} for p, r in sorted(PENDING.items())],
 'notes': 'Known findings (genuine defects of the pinned tree that are recorded, not repaired) and fixed: entries live in /verif/known_findings.txt. Exit 2 = infrastructure problem (build, determinism gate, violation gate).',
}
for pid in sorted(CHECKS):
    lvl, text, ref = CHECKS[pid]
    m['checks'].append({
      'property_id': pid, 'quick_cmd': './check %s quick' % pid, 'thorough_cmd': './check %s thorough' % pid,
      'evidence_file': '/verif/evidence/%s.json' % pid, 'replay_cmd_template': './check replay {path}', 'engine': 'sndsim',
      'level_claimed': {'category': lvl, 'text': text, 'design_ref': 'DESIGN.md section ' + ref},
      'level_note': 'trusted base: SimOS stub of POSIX file semantics, the reference models written from the format definitions (design/format-model.md), clang ASan/UBSan; seeded sampling - a clean run is evidence, not proof',
      'technique': 'deterministic simulation with fault injection: seeded search over plans (call histories, routes, I/O schedules, faults) executed on a simulated OS, checked against reference models; minimised replay files'})
json.dump(m, open('/verif/MANIFEST.json', 'w'), indent=1)
print('MANIFEST.json written:', len(m['checks']), 'checks,', len(m['not_applicable']), 'not applicable')
