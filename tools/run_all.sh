#!/bin/sh
# run every registered quick check; print one line per check
cd "$(dirname "$0")/.."
for p in $(python3 -c "import json; print(' '.join(c['property_id'] for c in json.load(open('MANIFEST.json'))['checks']))"); do
	OUT=$(./check $p ${1:-quick} 2>&1); RC=$?
	echo "$p exit=$RC $(echo "$OUT" | tail -1)"
	[ $RC -ne 0 ] && echo "$OUT" | grep -E "^(VIOLATION|INFRA|  signature)" | head -8
done
