// Metadata profiles: C12 (metadata survives close / re-open), C13 (custom chunks), C18 (PEAK and signal-max), C17 (command storm).
#include "profiles.hpp"
#include <algorithm>
#include <cmath>
#include <cstring>

static J mkop (const char *op) { J j = J::obj () ; j ["op"] = op ; return j ; }
void note_current_plan (const J &plan) ;

// metadata profiles use the sample-granular, stateless encodings only: block and bit-stream codecs have their own known findings
static bool plain_encoding (const Fmt &f)
{	switch (f.sub)
	{	case SF_FORMAT_PCM_S8 : case SF_FORMAT_PCM_U8 : case SF_FORMAT_PCM_16 : case SF_FORMAT_PCM_24 : case SF_FORMAT_PCM_32 : case SF_FORMAT_FLOAT : case SF_FORMAT_DOUBLE :
		case SF_FORMAT_ULAW : case SF_FORMAT_ALAW : return !f.block_codec ;
	}
	return false ;
}
static std::vector<const Fmt *> formats_of (std::initializer_list<int> majors, bool all_endian = true)
{	std::vector<const Fmt *> v ;
	for (auto &f : all_formats ())
		for (int m : majors) if (f.major == m && plain_encoding (f) && (all_endian || f.endian == SF_ENDIAN_FILE)) v.push_back (&f) ;
	return v ;
}

static void finding (Verdict &v, const char *prop, const std::string &clause, const std::string &disc, const std::string &detail)
{	Finding f ; f.sig = make_sig_raw (prop, clause, v.fmt, v.route, "none", disc) ; f.detail = detail ; v.findings.push_back (f) ;
}

// ------------------------------------------------------------------------------------------ C12

static const int k_str_types [] = { SF_STR_TITLE, SF_STR_COPYRIGHT, SF_STR_SOFTWARE, SF_STR_ARTIST, SF_STR_COMMENT, SF_STR_DATE, SF_STR_ALBUM, SF_STR_LICENSE, SF_STR_TRACKNUMBER, SF_STR_GENRE } ;

// support matrix, per field: the container format has a place for it and the pinned tree has both a writer and a reader
static bool str_supported (const Fmt &f, int type)
{	switch (f.major)
	{	case SF_FORMAT_WAV : case SF_FORMAT_WAVEX : case SF_FORMAT_RF64 : return type != SF_STR_LICENSE ;
		case SF_FORMAT_CAF : return true ;
		case SF_FORMAT_AIFF : return type == SF_STR_TITLE || type == SF_STR_COPYRIGHT || type == SF_STR_SOFTWARE || type == SF_STR_ARTIST || type == SF_STR_COMMENT ;
	}
	return false ;
}
static bool bext_supported (const Fmt &f) { return f.major == SF_FORMAT_WAV || f.major == SF_FORMAT_WAVEX || f.major == SF_FORMAT_RF64 ; }
static bool cart_supported (const Fmt &f) { return f.major == SF_FORMAT_WAV || f.major == SF_FORMAT_RF64 ; }
static bool cues_supported (const Fmt &f) { return f.major == SF_FORMAT_WAV || f.major == SF_FORMAT_WAVEX || f.major == SF_FORMAT_AIFF ; }
static bool instr_supported (const Fmt &f) { return f.major == SF_FORMAT_WAV || f.major == SF_FORMAT_WAVEX || f.major == SF_FORMAT_AIFF ; }
static bool chanmap_supported (const Fmt &f) { return f.major == SF_FORMAT_WAVEX || f.major == SF_FORMAT_RF64 || f.major == SF_FORMAT_AIFF || f.major == SF_FORMAT_CAF ; }

static J gen_c12 (uint64_t seed, uint64_t idx)
{	static std::vector<const Fmt *> main = formats_of ({ SF_FORMAT_WAV, SF_FORMAT_WAVEX, SF_FORMAT_RF64, SF_FORMAT_AIFF, SF_FORMAT_CAF }) ;
	const std::vector<Fmt> &all = all_formats () ;
	J plan = plan_skeleton ("C12", seed, idx) ;
	GenCtx g (sub_seed (seed, "C12", idx)) ;
	const Fmt *fp = (idx % 10 == 9) ? &all [(idx / 10) % all.size ()] : main [(idx - idx / 10) % main.size ()] ;		// 10 % control group: containers that store none
	if (!plain_encoding (*fp) || fp->major == SF_FORMAT_SDS || fp->major == SF_FORMAT_VOC || needs_path_route (*fp)) fp = main [idx % main.size ()] ;
	const Fmt &f = *fp ;
	int rate = g.pick_rate (f, false) ;
	int ch = g.rng.pick<int> ({ 1, 1, 2, 2, 3, 4, 5, 6, 7, 8 }) ; if (!valid_channels (f, ch, rate)) ch = g.pick_channels (f, rate) ; if (ch > 8) ch = valid_channels (f, 2, rate) ? 2 : 1 ;
	J &cfg = plan ["cfg"] ;
	cfg ["fmt"] = f.name ; cfg ["ch"] = ch ; cfg ["sr"] = rate ; cfg ["route"] = g.pick_route (f, true) ;
	std::vector<int> Ts ; for (int T = 0 ; T < 4 ; T++) if (lossless_lowzero (f, T) >= 0) Ts.push_back (T) ;
	int T = Ts.empty () ? (int) g.rng.below (4) : g.rng.pick (Ts) ;
	cfg ["T"] = stype_name (T) ; if (!Ts.empty () && !f.block_codec) cfg ["model"] = stype_name (T) ;
	DataDesc d ; d.cls = "noise" ; d.stream = (int64_t) g.rng.below (1000) ; cfg ["data"] = data_desc_to (d) ;
	// seeded order of set-ops
	std::vector<J> sets ;
	int nstr = (int) g.rng.pick<int> ({ 0, 1, 2, 3, 5, 10 }) ;
	for (int k = 0 ; k < nstr ; k++)
	{	J s = mkop ("setstr") ; s ["type"] = k_str_types [g.rng.below (10)] ; s ["len"] = (long long) g.rng.pick<int64_t> ({ 1, 2, 3, 8, 17, 127, 128, 255, 256, 1000 }) ; s ["stream"] = (long long) g.rng.below (100000) ;
		if (g.rng.chance (0.25)) s ["cls"] = "utf8" ;
		sets.push_back (s) ;
	}
	if (g.rng.chance (0.5)) { J b = mkop ("setbext") ; b ["fill"] = (int) g.rng.below (3) ; b ["hist"] = (long long) g.rng.pick<int64_t> ({ 0, 1, 2, 100, 255, 256, 257, 1000, 4000, 12000 }) ; b ["stream"] = (long long) g.rng.below (100000) ; if (g.rng.chance (0.4)) b ["cls"] = "crlf" ; b ["version"] = (int) g.rng.pick<int> ({ 0, 1, 2 }) ; sets.push_back (b) ; }
	if (g.rng.chance (0.4)) { J c = mkop ("setcart") ; c ["fill"] = (int) g.rng.below (3) ; c ["tag"] = (long long) g.rng.pick<int64_t> ({ 0, 1, 3, 100, 255, 256, 1000, 4000, 16000 }) ; c ["stream"] = (long long) g.rng.below (100000) ; sets.push_back (c) ; }
	if (g.rng.chance (0.4)) { J c = mkop ("setcues") ; c ["count"] = (long long) g.rng.pick<int64_t> ({ 0, 1, 2, 3, 10, 50, 99, 100 }) ; c ["stream"] = (long long) g.rng.below (100000) ; sets.push_back (c) ; }
	if (g.rng.chance (0.35)) { J c = mkop ("setinstr") ; c ["loops"] = (long long) g.rng.pick<int64_t> ({ 0, 1, 2, 8, 16 }) ; c ["stream"] = (long long) g.rng.below (100000) ; if (GenCtx (sub_seed (seed, "C12x", idx)).rng.chance (0.4)) c ["edge"] = 1 ; sets.push_back (c) ; }
	if (g.rng.chance (0.35))
	{	J c = mkop ("setchanmap") ; J codes = J::arr () ;
		static const int m1 [] = { SF_CHANNEL_MAP_MONO }, m2 [] = { SF_CHANNEL_MAP_LEFT, SF_CHANNEL_MAP_RIGHT },
			m4 [] = { SF_CHANNEL_MAP_LEFT, SF_CHANNEL_MAP_RIGHT, SF_CHANNEL_MAP_REAR_LEFT, SF_CHANNEL_MAP_REAR_RIGHT },
			m6 [] = { SF_CHANNEL_MAP_LEFT, SF_CHANNEL_MAP_RIGHT, SF_CHANNEL_MAP_CENTER, SF_CHANNEL_MAP_LFE, SF_CHANNEL_MAP_REAR_LEFT, SF_CHANNEL_MAP_REAR_RIGHT } ;
		const int *m = ch == 1 ? m1 : ch == 2 ? m2 : ch == 4 ? m4 : ch == 6 ? m6 : nullptr ;
		// every layout the library's own table lists for this channel count (generated from chanmap.c at build time)
		struct Layout { int n ; int codes [8] ; } ;
		static const Layout k_layouts [] = {
#include "layouts.inc"
			{ 0, { 0 } } } ;
		std::vector<const Layout *> fit ; for (auto &l : k_layouts) if (l.n == ch) fit.push_back (&l) ;
		if (!fit.empty () && g.rng.chance (0.6)) { const Layout *l = g.rng.pick (fit) ; for (int k = 0 ; k < ch ; k++) codes.push (l->codes [k]) ; }
		else if (m && g.rng.chance (0.8)) for (int k = 0 ; k < ch ; k++) codes.push (m [k]) ;
		if (codes.size ()) c ["codes"] = codes ; else c ["stream"] = (long long) g.rng.below (100000) ;
		sets.push_back (c) ;
	}
	for (size_t k = sets.size () ; k > 1 ; k--) std::swap (sets [k - 1], sets [g.rng.below (k)]) ;
	size_t nlate = sets.size () && g.rng.chance (0.3) ? 1 + g.rng.below (std::min<size_t> (2, sets.size ())) : 0 ;
	J ops = J::arr () ;
	{ J o = mkop ("open") ; o ["mode"] = g.rng.chance (0.1) && f.sample_granular () && !f.lossy ? "rw" : "w" ; o ["expect"] = "any" ; ops.push (o) ; }
	for (size_t k = 0 ; k + nlate < sets.size () ; k++) ops.push (sets [k]) ;
	if (has_header (f) && g.rng.chance (0.15)) { J c = mkop ("cmd") ; c ["id"] = "auto_header" ; c ["arg"] = 1 ; ops.push (c) ; }
	int B = block_frames (f, ch, rate) ;
	int nw = (int) g.rng.range (1, 3) ;
	for (int k = 0 ; k < nw ; k++)
	{	J w = mkop ("write") ; w ["T"] = stype_name (T) ; if (g.rng.chance (0.5)) w ["fr"] = 1 ; w ["n"] = (long long) g.pick_frames (B, ch, 1500 / ch + 2) ; ops.push (w) ;
		if (k == 0) for (size_t q = sets.size () - nlate ; q < sets.size () ; q++) ops.push (sets [q]) ;		// too late
		if (has_header (f) && g.rng.chance (0.15)) { J c = mkop ("cmd") ; c ["id"] = "update_header" ; ops.push (c) ; }
	}
	ops.push (mkop ("close")) ;
	{ J o = mkop ("open") ; o ["mode"] = "r" ; ops.push (o) ; }
	ops.push (mkop ("getstr")) ; ops.push (mkop ("getbext")) ; ops.push (mkop ("getcart")) ; ops.push (mkop ("getcues")) ; ops.push (mkop ("getinstr")) ; ops.push (mkop ("getchanmap")) ;
	{ J r = mkop ("read") ; r ["T"] = stype_name (T) ; r ["fr"] = 1 ; r ["n"] = 100000 ; ops.push (r) ; }
	ops.push (mkop ("close")) ;
	J task = J::obj () ; task ["ops"] = ops ; plan ["tasks"].push (task) ;
	return plan ;
}

static std::string crlf_norm (const std::string &s)
{	std::string o ;
	for (size_t k = 0 ; k < s.size () ; k++)
	{	if ((s [k] == '\r' && k + 1 < s.size () && s [k + 1] == '\n') || (s [k] == '\n' && k + 1 < s.size () && s [k + 1] == '\r')) { o += "\r\n" ; k++ ; }
		else if (s [k] == '\r' || s [k] == '\n') o += "\r\n" ;
		else o += s [k] ;
	}
	return o ;
}

static Verdict check_c12 (const J &plan)
{	Verdict v ;
	Result r = execute (plan) ;
	v.absorb (r) ;
	v.fmt = plan.at ("cfg").gets ("fmt") ; v.route = plan.at ("cfg").gets ("route") ;
	v.shape = plan_shape (plan) ;
	const Fmt *f = find_format_name (v.fmt) ;
	if (!f) return v ;
	// audio must be exactly what was written, whatever metadata was set, supported or not, early or late
	static const std::map<std::string, std::string> owned = { { "data.model", "audio" }, { "frames.range", "audio.frames" }, { "read.short_not_eof", "audio.frames" }, { "open.fail#read", "reopen.fail" }, { "open.fail#read_empty", "reopen.fail" } } ;
	add_owned (v, "C12", r, owned) ;
	if (!v.findings.empty ()) return v ;
	memory_differential (v, "C12", plan, r) ;
	if (!v.findings.empty ()) return v ;
	// expected values: last successful set before the audio
	std::map<int, std::string> str ;
	std::map<int, std::vector<std::string>> str_alt ;		// values also acceptable: a late set may be honoured or ignored
	J bext, cart, cues, instr, chanmap ;
	int kinds = 0 ;
	bool opened_w = !r.transcript [0].empty () && r.transcript [0][0].ret == 1 ;
	if (!opened_w) return v ;
	for (auto &o : r.obs)
	{	std::string k = o.gets ("kind") ; const J &x = o.at ("v") ;
		// containers that keep strings in a trailing chunk accept them after the audio too: an accepted late set is a set
		if (k == "setstr" && x.geti ("rc") == 0 && x.geti ("late"))
		{	int ty = (int) x.geti ("type") ;
			str_alt [ty].push_back (str.count (ty) ? str [ty] : std::string ("\x01<absent>")) ;
			for (auto &pv : str_alt [ty]) (void) pv ;
			str [ty] = x.gets ("text") ; continue ;
		}
		if (x.geti ("late")) continue ;
		if (k == "setstr" && x.geti ("rc") == 0) str [(int) x.geti ("type")] = x.gets ("text") ;
		else if (k == "setbext" && x.geti ("rc")) bext = x ;
		else if (k == "setcart" && x.geti ("rc")) cart = x ;
		else if (k == "setcues" && x.geti ("rc")) cues = x ;
		else if (k == "setinstr" && x.geti ("rc")) instr = x ;
		else if (k == "setchanmap" && x.geti ("rc")) chanmap = x ;
	}
	kinds = (int) (!str.empty ()) + !bext.is_null () + !cart.is_null () + !cues.is_null () + !instr.is_null () + !chanmap.is_null () ;
	bool both_cues_instr = !cues.is_null () && !instr.is_null () ;
	for (auto &o : r.obs)
	{	std::string k = o.gets ("kind") ; const J &x = o.at ("v") ;
		if (!v.findings.empty ()) break ;
		if (k == "getstr")
		{	for (auto &kv : str)
			{	if (!str_supported (*f, kv.first)) continue ;
				std::string got = x.gets (std::to_string (kv.first), "\x01<absent>") ;
				// documented: library suffix appended to the software string (the result is held in a 128 byte field)
				bool ok = kv.first == SF_STR_SOFTWARE ? got.compare (0, std::min<size_t> (kv.second.size (), 127), kv.second, 0, std::min<size_t> (kv.second.size (), 127)) == 0 : got == kv.second ;
				if (!ok) for (auto &alt : str_alt [kv.first]) if (got == alt || (kv.first == SF_STR_SOFTWARE && alt != "\x01<absent>" && got.compare (0, std::min<size_t> (alt.size (), 127), alt, 0, std::min<size_t> (alt.size (), 127)) == 0)) ok = true ;
				bool hi = false ; for (unsigned char c : kv.second) if (c >= 0x80) hi = true ;
				bool late_replace = false ; for (auto &alt : str_alt [kv.first]) if (alt != "\x01<absent>") late_replace = true ;		// set before the audio and again after it
				if (!ok) { finding (v, "C12", "roundtrip.string", "type" + std::to_string (kv.first) + (got == "\x01<absent>" ? ":absent" : ":differs") + (late_replace ? "+late_replace" : "") + (hi ? "+utf8" : "") + (str.size () + str_alt.size () > 4 ? "+many" : "") + (plan.at ("tasks") [0].at ("ops") [0].gets ("mode") == "rw" ? "+rdwr" : ""), "string type " + std::to_string (kv.first) + " (" + std::to_string (kv.second.size ()) + " bytes) set before the audio reads back as '" + got.substr (0, 60) + "'") ; break ; }
				v.probes ["strings_compared"] ++ ;
			}
		}
		else if (k == "getbext" && !bext.is_null () && bext_supported (*f))
		{	if (!x.geti ("rc")) { finding (v, "C12", "roundtrip.bext", "absent", "broadcast info set before the audio is not returned after re-open") ; break ; }
			for (auto &kv : bext.o)
			{	if (kv.first == "rc" || kv.first == "late" || kv.first == "hist" || kv.first == "version") continue ;		// version: the library writes the version it implements
				if (x.at (kv.first).dump () != kv.second.dump ()) { finding (v, "C12", "roundtrip.bext", kv.first, "bext field " + kv.first + " set " + kv.second.dump ().substr (0, 60) + " reads back " + x.at (kv.first).dump ().substr (0, 60)) ; break ; }
			}
			if (!v.findings.empty ()) break ;
			std::string want = crlf_norm (bext.gets ("hist")), got = x.gets ("hist") ;
			// documented: line ends normalised to CR/LF, one generated history line appended
			if (got.compare (0, want.size (), want) != 0) { finding (v, "C12", "roundtrip.bext", "coding_history", "coding history (" + std::to_string (want.size ()) + " bytes after CR/LF normalisation) is not a prefix of what reads back (" + std::to_string (got.size ()) + " bytes)") ; break ; }
			v.probes ["bext_compared"] ++ ;
		}
		else if (k == "getcart" && !cart.is_null () && cart_supported (*f))
		{	if (!x.geti ("rc")) { finding (v, "C12", "roundtrip.cart", "absent", "cart info set before the audio is not returned after re-open") ; break ; }
			for (auto &kv : cart.o)
			{	if (kv.first == "rc" || kv.first == "late" || kv.first == "tag") continue ;
				if (x.at (kv.first).dump () != kv.second.dump ()) { finding (v, "C12", "roundtrip.cart", kv.first, "cart field " + kv.first + " set " + kv.second.dump ().substr (0, 60) + " reads back " + x.at (kv.first).dump ().substr (0, 60)) ; break ; }
			}
			if (!v.findings.empty ()) break ;
			std::string want = cart.gets ("tag"), got = x.gets ("tag") ;
			if (got.compare (0, want.size (), want) != 0) { finding (v, "C12", "roundtrip.cart", "tag_text", "cart tag text (" + std::to_string (want.size ()) + " bytes) is not a prefix of what reads back (" + std::to_string (got.size ()) + " bytes)") ; break ; }
			v.probes ["cart_compared"] ++ ;
		}
		else if (k == "getcues" && !cues.is_null () && cues_supported (*f))
		{	const J &want = cues.at ("cues") ;
			std::string extra = both_cues_instr ? "+instrument" : "" ;
			if ((int64_t) want.size () > 0 && (!x.geti ("rc_count") || x.geti ("count") != (int64_t) want.size ()))
			{	finding (v, "C12", "roundtrip.cues", "count" + extra, std::to_string (want.size ()) + " cue points set before the audio, " + std::to_string (x.geti ("count")) + " after re-open") ; break ; }
			const J &got = x.at ("cues") ;
			for (size_t q = 0 ; q < want.size () && q < got.size () ; q++)
			{	if (want [q].geti ("sample_offset") != got [q].geti ("sample_offset") && want [q].geti ("sample_offset") != got [q].geti ("position") && want [q].geti ("position") != got [q].geti ("position"))
				{	finding (v, "C12", "roundtrip.cues", "offset" + extra, "cue " + std::to_string (q) + " position/offset " + std::to_string (want [q].geti ("position")) + "/" + std::to_string (want [q].geti ("sample_offset")) + " reads back " + std::to_string (got [q].geti ("position")) + "/" + std::to_string (got [q].geti ("sample_offset"))) ; break ; }
				if (want [q].gets ("name") != got [q].gets ("name")) { finding (v, "C12", "roundtrip.cues", "name" + extra, "cue " + std::to_string (q) + " name '" + want [q].gets ("name") + "' reads back '" + got [q].gets ("name") + "'") ; break ; }
			}
			v.probes ["cues_compared"] ++ ;
		}
		else if (k == "getinstr" && !instr.is_null () && instr_supported (*f))
		{	if (!x.geti ("rc")) { finding (v, "C12", "roundtrip.instrument", "absent", "instrument set before the audio is not returned after re-open") ; break ; }
			// the WAV smpl chunk has a place for the base note, the pitch fraction (detune) and the loop list only
			for (const char *fld : { "basenote", "detune", "loop_count" })
				if (x.geti (fld) != instr.geti (fld)) { finding (v, "C12", "roundtrip.instrument", fld, std::string ("instrument field ") + fld + " set " + std::to_string (instr.geti (fld)) + " reads back " + std::to_string (x.geti (fld))) ; break ; }
			if (!v.findings.empty ()) break ;
			if (x.at ("loops").dump () != instr.at ("loops").dump ()) { finding (v, "C12", "roundtrip.instrument", "loops", "loop list set " + instr.at ("loops").dump ().substr (0, 80) + " reads back " + x.at ("loops").dump ().substr (0, 80)) ; break ; }
			v.probes ["instrument_compared"] ++ ;
		}
		else if (k == "getchanmap" && !chanmap.is_null () && chanmap_supported (*f))
		{	if (!x.geti ("rc")) { finding (v, "C12", "roundtrip.chanmap", "absent", "channel map accepted before the audio is not returned after re-open") ; break ; }
			if (x.at ("codes").dump () != chanmap.at ("codes").dump ()) { finding (v, "C12", "roundtrip.chanmap", "codes", "channel map " + chanmap.at ("codes").dump () + " reads back " + x.at ("codes").dump ()) ; break ; }
			v.probes ["chanmap_compared"] ++ ;
		}
	}
	v.nontrivial = kinds >= 2 ;
	return v ;
}

// ------------------------------------------------------------------------------------------ C13

static J gen_c13 (uint64_t seed, uint64_t idx)
{	static std::vector<const Fmt *> fmts = formats_of ({ SF_FORMAT_WAV, SF_FORMAT_WAVEX, SF_FORMAT_RF64, SF_FORMAT_AIFF, SF_FORMAT_CAF }) ;
	J plan = plan_skeleton ("C13", seed, idx) ;
	GenCtx g (sub_seed (seed, "C13", idx)) ;
	const Fmt &f = *fmts [idx % fmts.size ()] ;
	int rate = g.pick_rate (f, false) ;
	int ch = g.rng.pick<int> ({ 1, 2, 3 }) ; if (!valid_channels (f, ch, rate)) ch = g.pick_channels (f, rate) ; if (ch > 8) ch = 1 ;
	J &cfg = plan ["cfg"] ;
	cfg ["fmt"] = f.name ; cfg ["ch"] = ch ; cfg ["sr"] = rate ; cfg ["route"] = g.pick_route (f, true) ;
	std::vector<int> Ts ; for (int T = 0 ; T < 4 ; T++) if (lossless_lowzero (f, T) >= 0) Ts.push_back (T) ;
	int T = Ts.empty () ? (int) g.rng.below (4) : g.rng.pick (Ts) ;
	cfg ["T"] = stype_name (T) ; if (!Ts.empty () && !f.block_codec) cfg ["model"] = stype_name (T) ;
	DataDesc d ; d.cls = "noise" ; d.stream = (int64_t) g.rng.below (1000) ; cfg ["data"] = data_desc_to (d) ;
	int nchunks = (int) g.rng.pick<int> ({ 0, 1, 2, 3, 5, 8, 19, 20, 21, 22, 30, 31, 32, 33, 46, 47, 48, 70, 120, 200 }) ;
	bool wild_ids = g.rng.chance (0.25) ;		// short / reserved / long ids only in a quarter of the plans
	static const char *plain [] = { "tSt0", "Test", "abcd", "zzzz", "cue2", "ZyXw", "tSt0", "tSt1" } ;
	static const char *wild [] = { "ab", "x", "abc", "data", "LIST", "fmt ", "PEAK", "SSND", "COMM", "abcdefgh", "tSt0" } ;
	// the header buffer doubles up to a 100 KiB cap, so in effect ~48 KiB of header can be written; one plan in eight goes beyond
	bool big = g.rng.chance (0.125) ;
	int64_t budget = big ? 90000 : 40000 ;
	J ops = J::arr () ;
	{ J o = mkop ("open") ; o ["mode"] = "w" ; ops.push (o) ; }
	std::vector<std::string> used ;
	for (int k = 0 ; k < nchunks ; k++)
	{	J c = mkop ("setchunk") ;
		// one kind of unusual id per plan (short / reserved / long, by plan index): the containers differ in which of them they cope with
		static const char *w_short [] = { "ab", "x", "abc" }, *w_res [] = { "data", "LIST", "fmt ", "PEAK", "SSND", "COMM" }, *w_long [] = { "abcdefgh", "tSt0x", "abcdefgh" } ;
		uint64_t wi = g.rng.below (11) ;
		const char *wid = idx % 3 == 0 ? w_short [wi % 3] : idx % 3 == 1 ? w_res [wi % 6] : w_long [wi % 3] ;
		(void) wild ;
		std::string id = (wild_ids && g.rng.chance (0.5)) ? wid : plain [g.rng.below (8)] ;
		int64_t len = g.rng.pick<int64_t> ({ 0, 1, 2, 3, 4, 5, 7, 17, 100, 255, 256, 257, 1000, 4095, 4096, 4097, 20000, 65535 }) ;
		if (big && g.rng.chance (0.4)) len = g.rng.pick<int64_t> ({ 9000, 11000, 20000, 25000, 27000, 30000, 32000, 40000, 50000 }) ;
		if (!big && len > 20000) len = 20000 ;
		if (len + 16 > budget) len = budget > 32 ? g.rng.range (0, 16) : 0 ;
		if (budget < 16) break ;
		budget -= len + 16 ;
		c ["id"] = id ; c ["len"] = (long long) len ; c ["stream"] = (long long) g.rng.below (1000000) ;
		ops.push (c) ; used.push_back (id) ;
		if (g.rng.chance (0.05)) { J s = mkop ("setstr") ; s ["type"] = SF_STR_TITLE ; s ["len"] = (long long) g.rng.range (1, 40) ; s ["stream"] = (long long) g.rng.below (1000) ; ops.push (s) ; }
	}
	int B = block_frames (f, ch, rate) ;
	// a fifth of the sample-granular plans hand the audio over with sf_write_raw only (the library must know just as well that data has been written)
	bool rawonly = f.sample_granular () && !f.lossy && B == 1 && g.rng.chance (0.2) ;
	{ J w = mkop ("write") ; w ["T"] = rawonly ? "raw" : stype_name (T) ; w ["fr"] = 1 ; w ["n"] = (long long) g.pick_frames (B, ch, 1000 / ch + 2) ; ops.push (w) ; }
	if (g.rng.chance (rawonly ? 0.7 : 0.3)) { J c = mkop ("setchunk") ; c ["id"] = "late" ; c ["len"] = (long long) g.rng.range (0, 100) ; c ["stream"] = 77 ; ops.push (c) ; }
	if (g.rng.chance (0.5)) { J w = mkop ("write") ; w ["T"] = rawonly ? "raw" : stype_name (T) ; w ["n"] = (long long) g.pick_frames (B, ch, 500 / ch + 2) ; ops.push (w) ; }
	ops.push (mkop ("close")) ;
	{ J o = mkop ("open") ; o ["mode"] = "r" ; ops.push (o) ; }
	{ J i = mkop ("iterchunks") ; i ["variant"] = 2 ; ops.push (i) ; }
	std::sort (used.begin (), used.end ()) ; used.erase (std::unique (used.begin (), used.end ()), used.end ()) ;
	for (auto &id : used) { J i = mkop ("iterchunks") ; i ["id"] = id ; i ["variant"] = (int) g.rng.below (4) ; ops.push (i) ; }
	{ J i = mkop ("iterchunks") ; i ["variant"] = (int) g.rng.below (4) ; ops.push (i) ; }
	{ J i = mkop ("iterchunks") ; i ["id"] = "none" ; i ["variant"] = 2 ; ops.push (i) ; }
	{ J r = mkop ("read") ; r ["T"] = stype_name (T) ; r ["fr"] = 1 ; r ["n"] = 100000 ; ops.push (r) ; }
	ops.push (mkop ("close")) ;
	J task = J::obj () ; task ["ops"] = ops ; plan ["tasks"].push (task) ;
	return plan ;
}

static uint64_t chunk_hash (uint64_t key, int64_t stream, int64_t len, int64_t padded, int64_t upto)
{	std::vector<uint8_t> b ((size_t) std::min (padded, upto), 0) ;
	for (int64_t k = 0 ; k < len && k < (int64_t) b.size () ; k++) b [k] = (uint8_t) mix3 (key ^ 0xc4c4, (uint64_t) stream, (uint64_t) k) ;
	return fnv1a (b.data (), b.size ()) >> 1 ;
}

static bool reserved_id (const std::string &id)
{	static const char *r [] = { "data", "LIST", "fmt ", "PEAK", "SSND", "COMM", "FORM", "RIFF", "fact", "bext", "cart", "cue ", "smpl", "MARK", "INST", "desc", "chan", "free", "pakt", "kuki", "info", "peak", "strg", "ds64", "JUNK" } ;
	for (auto x : r) if (id == x) return true ;
	return false ;
}

static Verdict check_c13 (const J &plan)
{	Verdict v ;
	Result r = execute (plan) ;
	v.absorb (r) ;
	v.fmt = plan.at ("cfg").gets ("fmt") ; v.route = plan.at ("cfg").gets ("route") ;
	v.shape = plan_shape (plan) ;
	static const std::map<std::string, std::string> owned = { { "data.model", "audio" }, { "frames.range", "audio" }, { "read.short_not_eof", "audio" }, { "open.fail#read", "reopen.fail" }, { "inv", "inv" }, { "chunk.iter_endless", "walk.endless" } } ;
	add_owned (v, "C13", r, owned) ;
	if (v.findings.empty ()) memory_differential (v, "C13", plan, r) ;
	uint64_t key = (uint64_t) plan.geti ("seed") ;
	// chunks stored: set before the audio and accepted
	struct Ck { std::string id ; int64_t len, stream ; } ;
	std::vector<Ck> stored ; bool wild = false, wshort = false, wlong = false, wres = false ; int nset = 0 ;
	const J &ops = plan.at ("tasks") [0].at ("ops") ;
	for (auto &o : r.obs)
	{	if (o.gets ("kind") != "setchunk") continue ;
		const J &x = o.at ("v") ; nset ++ ;
		const J &op = ops [(size_t) o.geti ("op")] ;
		if (x.geti ("late")) { v.probes ["late_chunk_" + std::string (x.geti ("rc") ? "refused" : "accepted")] ++ ; continue ; }
		if (x.geti ("rc") != 0) { v.probes ["chunk_set_refused"] ++ ; continue ; }
		std::string id = x.gets ("id") ;
		if (id.size () != 4 || reserved_id (id)) wild = true ;
		if (id.size () < 4) wshort = true ; else if (id.size () > 4) wlong = true ; else if (reserved_id (id)) wres = true ;
		stored.push_back (Ck { id, x.geti ("len"), op.geti ("stream") }) ;
	}
	int64_t total = 0, biggest = 0 ; for (auto &c : stored) { total += c.len + 16 ; biggest = std::max (biggest, c.len) ; }
	// the limits of the pinned tree: the header buffer doubles (..., 32768, 65536) and is refused beyond 100 KiB, and a growth request is
	// twice the payload: one payload above 51200 bytes, or a header beyond 64 KiB in all, cannot be written
	// (the sizes alone do not decide it - the buffer doubles from wherever the previous request left it - so the writer's own log is
	// asked: "Request for header allocation of N denied")
	bool bigh = r.probes.count ("writer_header_allocation_denied") > 0 ; (void) total ; (void) biggest ;
	// which kind of unusual id the plan used is part of the discriminator: the containers differ in what they cope with
	std::string odd = wild ? std::string ("+odd_ids") + (wshort ? ":short" : "") + (wlong ? ":long" : "") + (wres ? ":reserved" : "") : "" ;
	if (!v.findings.empty ()) { for (auto &f : v.findings) f.sig += odd + (bigh ? "+big_header" : "") ; return v ; }
	std::string extra = odd + (bigh ? "+big_header" : "") ;
	for (auto &o : r.obs)
	{	if (o.gets ("kind") != "iterchunks" || !v.findings.empty ()) continue ;
		const J &x = o.at ("v") ; const J &list = x.at ("list") ; int variant = (int) x.geti ("variant") ;
		std::string byid = x.gets ("byid") ; bool full = x.geti ("full") != 0 ;
		// expected subsequence
		std::vector<const Ck *> want ;
		for (auto &c : stored) if (full ? !reserved_id (c.id) : c.id == byid) want.push_back (&c) ;
		std::vector<const J *> got ;
		for (auto &e : list.a)
		{	std::string id = e.gets ("id") ;
			bool mine = false ; for (auto &c : stored) if (c.id.substr (0, 4) == id.substr (0, 4) && !reserved_id (c.id)) mine = true ;
			if (full ? mine : true) got.push_back (&e) ;
		}
		if (full)
		{	// only non-reserved ids are attributable in a full walk; ids longer than 4 are stored by their first 4 characters
			std::vector<const Ck *> w2 ; for (auto c : want) w2.push_back (c) ;
			if (got.size () != w2.size ()) { finding (v, "C13", "walk.once", (got.size () < w2.size () ? "missing" : "extra") + extra, "full iteration visits " + std::to_string (got.size ()) + " application chunks, " + std::to_string (w2.size ()) + " were stored") ; break ; }
		}
		else if (byid == "none") { if (!list.a.empty ()) { finding (v, "C13", "byid", "phantom" + extra, "lookup of an id that was never stored returns " + std::to_string (list.size ()) + " chunks") ; } continue ; }
		else if (reserved_id (byid)) continue ;
		else if (got.size () != want.size ()) { finding (v, "C13", "byid", (got.size () < want.size () ? "missing" : "extra") + extra, "lookup by id '" + byid + "' returns " + std::to_string (got.size ()) + " chunks, " + std::to_string (want.size ()) + " were stored") ; break ; }
		for (size_t k = 0 ; k < want.size () && k < got.size () && v.findings.empty () ; k++)
		{	const Ck &c = *want [k] ; const J &e = *got [k] ;
			int64_t size = e.geti ("size") ;
			if (e.geti ("rc_size") != 0) { finding (v, "C13", "size", "error" + extra, "sf_get_chunk_size failed for a stored chunk") ; break ; }
			if (size != c.len && size != ((c.len + 1) & ~1LL) && size != ((c.len + 3) & ~3LL)) { finding (v, "C13", "size", "wrong" + extra, "chunk '" + c.id + "' of " + std::to_string (c.len) + " bytes reports size " + std::to_string (size)) ; break ; }
			if (!e.has ("rc_data")) continue ;
			if (e.geti ("rc_data") != 0) { finding (v, "C13", "data", "error" + extra, "sf_get_chunk_data failed for a stored chunk") ; break ; }
			int64_t n = e.geti ("n") ;
			if (e.geti ("hash") != (int64_t) chunk_hash (key, c.stream, c.len, size, n)) { finding (v, "C13", "data", std::string (variant == 2 ? "payload" : variant == 1 ? "payload_short_buffer" : "payload_variant") + extra, "chunk '" + c.id + "' (" + std::to_string (c.len) + " bytes): the first " + std::to_string (n) + " bytes returned differ from the payload (zero padded)") ; break ; }
			if (e.has ("tail_untouched") && !e.geti ("tail_untouched")) { finding (v, "C13", "data", "beyond_size" + extra, "sf_get_chunk_data wrote beyond the chunk size into the caller's larger buffer") ; break ; }
			v.probes ["chunks_compared"] ++ ;
		}
	}
	v.nontrivial = !stored.empty () ;
	if (stored.size () > 20) v.probes ["chunk_table_grown"] ++ ;
	if (stored.size () > 31) v.probes ["chunk_table_grown_twice"] ++ ;
	return v ;
}

// ------------------------------------------------------------------------------------------ C18

static J gen_c18 (uint64_t seed, uint64_t idx)
{	static std::vector<const Fmt *> pk = [] { std::vector<const Fmt *> v ; for (auto &f : all_formats ()) if (peak_capable (f)) v.push_back (&f) ; return v ; } () ;
	const std::vector<Fmt> &all = all_formats () ;
	J plan = plan_skeleton ("C18", seed, idx) ;
	GenCtx g (sub_seed (seed, "C18", idx)) ;
	bool part_a = (idx & 1) == 0 ;
	const Fmt &f = part_a ? *pk [(idx / 2) % pk.size ()] : all [(idx / 2) % all.size ()] ;
	int rate = g.pick_rate (f, false) ;
	int ch = g.rng.pick<int> ({ 1, 2, 3, 3, 4, 5, 6, 7, 8 }) ; if (!valid_channels (f, ch, rate)) ch = g.pick_channels (f, rate) ; if (ch > 8) ch = valid_channels (f, 2, rate) ? 2 : 1 ;
	J &cfg = plan ["cfg"] ;
	cfg ["fmt"] = f.name ; cfg ["ch"] = ch ; cfg ["sr"] = rate ; cfg ["route"] = g.pick_route (f, true) ;
	cfg ["part"] = part_a ? "peak" : "calc" ;
	// PEAK is computed on what the float file stores, whatever type the caller hands in: float, double, and (a third of the plans)
	// short or int, which a float file stores unscaled by default
	int T = part_a ? (g.rng.chance (0.34) ? (g.rng.chance (0.5) ? T_SHORT : T_INT) : g.rng.chance (0.5) ? T_FLOAT : T_DOUBLE) : (int) g.rng.below (4) ;
	cfg ["T"] = stype_name (T) ;
	DataDesc d ; d.cls = part_a ? g.rng.pick<const char *> ({ "ties", "ties", "noise", "sine", "pm1_edges", "zeros", "ramp" }) : (g.rng.chance (0.5) ? "noise" : "sine") ; d.stream = (int64_t) g.rng.below (100000) ;
	cfg ["data"] = data_desc_to (d) ;
	J ops = J::arr () ;
	{ J o = mkop ("open") ; o ["mode"] = "w" ; ops.push (o) ; }
	if (part_a && f.major == SF_FORMAT_RF64) { J c = mkop ("cmd") ; c ["id"] = "peak_chunk" ; c ["arg"] = 1 ; ops.push (c) ; }
	int B = block_frames (f, ch, rate) ;
	int nw = (int) g.rng.range (1, 8) ; int64_t N = 0 ;
	for (int k = 0 ; k < nw ; k++)
	{	J w = mkop ("write") ; w ["T"] = stype_name (part_a && g.rng.chance (0.2) ? (T == T_FLOAT ? T_DOUBLE : T_FLOAT) : T) ; if (g.rng.chance (0.5)) w ["fr"] = 1 ;
		int64_t n = g.pick_frames (B, ch, (g.rng.chance (0.25) ? 14000 : 4000) / ch + 2) ;		// some single calls span several staging buffers
		w ["n"] = (long long) n ; N += n ; ops.push (w) ;
		if (part_a && has_header (f) && g.rng.chance (0.1)) { J c = mkop ("cmd") ; c ["id"] = "update_header" ; ops.push (c) ; }
		// the writer may go back and overwrite a stretch (the PEAK bookkeeping then runs at a position that is not the end of the file)
		if (part_a && N > 4 && g.rng.chance (0.15))
		{	int64_t tgt = (int64_t) g.rng.below ((uint64_t) N - 1), m = g.rng.range (1, std::min<int64_t> (N - tgt, 24)) ;
			J s1 = mkop ("seek") ; s1 ["off"] = (long long) tgt ; s1 ["whence"] = 0 ; ops.push (s1) ;
			J w2 = mkop ("write") ; w2 ["T"] = stype_name (T) ; w2 ["fr"] = 1 ; w2 ["n"] = (long long) m ; ops.push (w2) ;
			J s2 = mkop ("seek") ; s2 ["off"] = 0 ; s2 ["whence"] = 2 ; ops.push (s2) ;
		}
	}
	ops.push (mkop ("close")) ;
	{ J o = mkop ("open") ; o ["mode"] = "r" ; ops.push (o) ; }
	if (part_a)
	{	{ J q = mkop ("query") ; q ["id"] = "get_max" ; ops.push (q) ; }
		{ J q = mkop ("query") ; q ["id"] = "get_max_all" ; ops.push (q) ; }
	}
	else
	{	int nq = (int) g.rng.range (1, 6) ; bool normcmd = false ;
		for (int k = 0 ; k < nq ; k++)
		{	if (g.rng.chance (0.6)) { J rd = mkop ("read") ; rd ["T"] = stype_name (normcmd ? (int) g.rng.below (2) : (int) g.rng.below (4)) ; rd ["fr"] = 1 ; rd ["n"] = (long long) g.rng.range (1, std::max<int64_t> (1, N)) ; rd ["ref"] = 1 ; ops.push (rd) ; }
			if (g.rng.chance (0.3)) { J s = mkop ("seek") ; s ["off"] = (long long) (N > 0 ? g.rng.below ((uint64_t) N + 1) : 0) ; s ["whence"] = 0 ; ops.push (s) ; }
			if (g.rng.chance (0.3)) { J c = mkop ("cmd") ; c ["id"] = "norm_double" ; c ["arg"] = (int) g.rng.below (2) ; ops.push (c) ; normcmd = true ; }
			J q = mkop ("query") ; q ["id"] = g.rng.pick<const char *> ({ "calc_max", "calc_norm_max", "calc_max_all", "calc_norm_max_all" }) ; ops.push (q) ;
			// the reads that follow must deliver what they would have delivered without the command (the reference decode uses the
			// default normalisation, so it is only consulted while the plan has not changed that setting itself)
			{ J rd = mkop ("read") ; rd ["T"] = stype_name (normcmd ? T_SHORT : T) ; rd ["n"] = (long long) g.rng.range (1, 64) ; rd ["ref"] = 1 ; ops.push (rd) ; }
		}
	}
	ops.push (mkop ("close")) ;
	J task = J::obj () ; task ["ops"] = ops ; plan ["tasks"].push (task) ;
	return plan ;
}

// parse the PEAK chunk of a WAV / RF64 / AIFF / CAF image: per channel (value, position); returns false if none
static bool parse_peak (const std::vector<uint8_t> &d, const Fmt &f, int ch, std::vector<float> &val, std::vector<uint64_t> &pos)
{	bool be = f.major == SF_FORMAT_AIFF || f.major == SF_FORMAT_CAF || (d.size () >= 4 && d [0] == 'R' && d [1] == 'I' && d [2] == 'F' && d [3] == 'X') ;
	auto u32 = [&] (size_t o) -> uint32_t { return be ? ((uint32_t) d [o] << 24) | (d [o + 1] << 16) | (d [o + 2] << 8) | d [o + 3] : ((uint32_t) d [o + 3] << 24) | (d [o + 2] << 16) | (d [o + 1] << 8) | d [o] ; } ;
	bool caf = f.major == SF_FORMAT_CAF ;
	const char *tag = caf ? "peak" : "PEAK" ;
	for (size_t k = 8 ; k + 12 < d.size () ; k++)
	{	if (memcmp (&d [k], tag, 4) != 0) continue ;
		size_t p = caf ? k + 4 + 8 + 4 : k + 4 + 4 + 4 + 4 ;		// CAF: id, size(8), edit count(4); WAV/AIFF: id, size(4), version(4), timestamp(4)
		size_t per = caf ? 12 : 8 ;
		if (p + per * ch > d.size ()) continue ;
		val.clear () ; pos.clear () ;
		for (int c = 0 ; c < ch ; c++)
		{	uint32_t b = u32 (p + per * c) ; float x ; memcpy (&x, &b, 4) ; val.push_back (x) ;
			pos.push_back (caf ? ((uint64_t) u32 (p + per * c + 4) << 32) | u32 (p + per * c + 8) : u32 (p + per * c + 4)) ;
		}
		return true ;
	}
	return false ;
}

static Verdict check_c18 (const J &plan)
{	Verdict v ;
	Result r = execute (plan) ;
	v.absorb (r) ;
	const J &cfg = plan.at ("cfg") ;
	v.fmt = cfg.gets ("fmt") ; v.route = cfg.gets ("route") ;
	v.shape = plan_shape (plan) ;
	const Fmt *f = find_format_name (v.fmt) ;
	if (!f) return v ;
	int ch = (int) cfg.geti ("ch", 1) ;
	static const std::map<std::string, std::string> owned = { { "query.moved_position", "calc.pos" }, { "calc.norm_changed", "calc.pos" } } ;
	add_owned (v, "C18", r, owned) ;
	if (!v.findings.empty ()) return v ;
	if (cfg.gets ("part") == "calc")
	{	// the reads that follow a CALC command deliver what they deliver without it: same plan with the queries removed
		J p2 = plan ; J ops2 = J::arr () ;
		for (auto &op : plan.at ("tasks") [0].at ("ops").a) if (op.gets ("op") != "query") ops2.push (op) ;
		p2 ["tasks"][0]["ops"] = ops2 ;
		Result r2 = execute (p2) ;
		v.absorb (r2) ;
		std::vector<const Rec *> a, b ;
		for (auto &x : r.transcript [0]) if (!x.skipped && x.api.compare (0, 6, "query:") != 0) a.push_back (&x) ;
		for (auto &x : r2.transcript [0]) if (!x.skipped) b.push_back (&x) ;
		for (size_t k = 0 ; k < a.size () && k < b.size () ; k++)
			if (a [k]->ret != b [k]->ret || a [k]->dh != b [k]->dh || a [k]->err != b [k]->err)
			{	finding (v, "C18", "calc.pos", "following_reads", "call " + std::to_string (k) + " (" + a [k]->api + ") returns " + std::to_string (a [k]->ret) + " / data " + std::to_string (a [k]->dh >> 1) + " with the CALC commands, " + std::to_string (b [k]->ret) + " / " + std::to_string (b [k]->dh >> 1) + " without them") ; break ; }
		v.probes ["calc_differential"] ++ ;
		if (!v.findings.empty ()) return v ;
	}
	if (cfg.gets ("part") == "peak")
	{	// model: per channel max |stored sample| and its first frame, recomputed from the plan's own data description
		uint64_t key = (uint64_t) plan.geti ("seed") ;
		DataDesc d = data_desc_from (cfg.at ("data")) ;
		std::vector<double> mx ((size_t) ch, 0.0) ; std::vector<int64_t> at ((size_t) ch, 0) ;
		int64_t item = 0, frame = 0 ; bool any = false ; int ties = 0 ;
		const J &ops = plan.at ("tasks") [0].at ("ops") ;
		for (size_t k = 0 ; k < ops.size () && k < r.transcript [0].size () ; k++)
		{	if (ops [k].gets ("op") == "seek" && !r.transcript [0][k].skipped && r.transcript [0][k].ret >= 0) { frame = r.transcript [0][k].ret ; continue ; }
			if (ops [k].gets ("op") != "write" || r.transcript [0][k].skipped) continue ;
			int T = stype_from (ops [k].gets ("T")) ; int64_t n = ops [k].geti ("n") ;
			if (r.transcript [0][k].ret != (ops [k].geti ("fr") ? n : n * ch)) return v ;		// write refused: nothing to check
			for (int64_t i = 0 ; i < n * ch ; i++)
			{	int lz = std::max (0, lossless_lowzero (*f, T)) ;		// as the executor generates them
				uint64_t b = gen_bits (key, item + i, T, d, lz) ;
				double x ;
				if (T == T_FLOAT) { uint32_t u = (uint32_t) b ; float fl ; memcpy (&fl, &u, 4) ; x = fl ; }
				else if (T == T_SHORT) x = (double) (int16_t) (uint16_t) b ;
				else if (T == T_INT) x = (double) (int32_t) (uint32_t) b ;
				else { memcpy (&x, &b, 8) ; }
				if (f->is_float) x = (double) (float) x ;		// what a FLOAT file stores
				double a = fabs (x) ; int c = (int) (i % ch) ;
				if (a > mx [c]) { mx [c] = a ; at [c] = frame + i / ch ; } else if (a == mx [c] && a > 0) ties ++ ;
				any = true ;
			}
			item += n * ch ; frame += n ;
		}
		if (!any) return v ;
		const std::vector<uint8_t> *img = nullptr ;
		for (auto &kv : r.stores) if (kv.first.find ("f0.dat") != std::string::npos && kv.first.find ("._") == std::string::npos) img = &kv.second ;
		std::vector<float> pv ; std::vector<uint64_t> pp ;
		bool have = img && parse_peak (*img, *f, ch, pv, pp) ;
		if (!have) { finding (v, "C18", "peak.absent", "-", "no PEAK chunk found in a " + v.fmt + " file although one is written by default / was requested") ; return v ; }
		for (int c = 0 ; c < ch ; c++)
		{	if (pv [c] != (float) mx [c]) { char b [200] ; snprintf (b, sizeof (b), "channel %d: PEAK value %.9g, true maximum %.9g", c, pv [c], (float) mx [c]) ; finding (v, "C18", "peak.value", "stored", b) ; return v ; }
			if (mx [c] > 0 && (int64_t) pp [c] != at [c]) { char b [200] ; snprintf (b, sizeof (b), "channel %d: PEAK position %llu, first occurrence of the maximum is frame %lld", c, (unsigned long long) pp [c], (long long) at [c]) ; finding (v, "C18", "peak.pos", ties ? "ties" : "unique", b) ; return v ; }
		}
		for (auto &o : r.obs)
		{	if (o.gets ("kind") != "query") continue ;
			const J &x = o.at ("v") ;
			if (x.gets ("id") == "get_max")
			{	double want = 0 ; for (double m : mx) want = std::max (want, (double) (float) m) ;
				if (!x.geti ("rc") || x.at ("val").dbl () != want) { char b [200] ; snprintf (b, sizeof (b), "SFC_GET_SIGNAL_MAX returns rc=%lld value %.9g, true maximum %.9g", (long long) x.geti ("rc"), x.at ("val").dbl (), want) ; finding (v, "C18", "peak.value", "get_signal_max", b) ; return v ; }
			}
			if (x.gets ("id") == "get_max_all")
				for (int c = 0 ; c < ch && c < (int) x.at ("vals").size () ; c++)
					if (!x.geti ("rc") || x.at ("vals") [c].dbl () != (double) (float) mx [c]) { char b [200] ; snprintf (b, sizeof (b), "SFC_GET_MAX_ALL_CHANNELS channel %d returns %.9g, true maximum %.9g", c, x.at ("vals") [c].dbl (), (double) (float) mx [c]) ; finding (v, "C18", "peak.value", "get_max_all_channels", b) ; return v ; }
		}
		v.probes ["peak_checked"] ++ ; if (ties) v.probes ["peak_ties_present"] ++ ;
		bool boundary = false ; for (int c = 0 ; c < ch ; c++) if (at [c] > 0) boundary = true ;
		v.nontrivial = boundary || ties > 0 ;
	}
	else
	{	int nq = 0 ;
		for (auto &o : r.obs)
		{	if (o.gets ("kind") != "query") continue ;
			const J &x = o.at ("v") ; std::string id = x.gets ("id") ;
			if (id.compare (0, 5, "calc_") != 0 || !x.has ("expected")) continue ;
			const J &e = x.at ("expected") ;
			nq ++ ;
			if (x.geti ("rc") != 0) { finding (v, "C18", "calc.value", id + ":failed", id + " returned an error on a readable file") ; break ; }
			if (x.has ("val"))
			{	double want = 0 ; for (auto &m : e.a) want = std::max (want, m.dbl ()) ;
				if (x.at ("val").dbl () != want) { char b [200] ; snprintf (b, sizeof (b), "%s returns %.17g, maximum |sample| of the file is %.17g", id.c_str (), x.at ("val").dbl (), want) ; finding (v, "C18", "calc.value", id, b) ; break ; }
			}
			else for (size_t c = 0 ; c < e.size () && c < x.at ("vals").size () ; c++)
				if (x.at ("vals") [c].dbl () != e [c].dbl ()) { char b [200] ; snprintf (b, sizeof (b), "%s channel %zu returns %.17g, maximum |sample| of that channel is %.17g", id.c_str (), c, x.at ("vals") [c].dbl (), e [c].dbl ()) ; finding (v, "C18", "calc.value", id, b) ; break ; }
			if (x.geti ("rd") > 0) v.probes ["calc_at_interior_position"] ++ ;
		}
		v.nontrivial = nq > 0 && v.probes.count ("calc_at_interior_position") ;
	}
	return v ;
}

// ------------------------------------------------------------------------------------------ C17

static J gen_c17 (uint64_t seed, uint64_t idx)
{	static std::vector<const Fmt *> fmts = [] { std::vector<const Fmt *> v ; for (auto &f : all_formats ())
		if ((f.major == SF_FORMAT_WAV || f.major == SF_FORMAT_WAVEX || f.major == SF_FORMAT_RF64 || f.major == SF_FORMAT_AIFF || f.major == SF_FORMAT_CAF || f.major == SF_FORMAT_RAW) &&
			(f.sub == SF_FORMAT_PCM_16 || f.sub == SF_FORMAT_PCM_24 || f.sub == SF_FORMAT_FLOAT || f.sub == SF_FORMAT_DOUBLE || f.sub == SF_FORMAT_PCM_S8 || f.sub == SF_FORMAT_PCM_U8)) v.push_back (&f) ; return v ; } () ;
	J plan = plan_skeleton ("C17", seed, idx) ;
	GenCtx g (sub_seed (seed, "C17", idx)) ;
	const Fmt &f = *fmts [idx % fmts.size ()] ;
	int rate = g.pick_rate (f, false) ;
	int ch = g.rng.pick<int> ({ 1, 2, 2, 3, 6 }) ; if (!valid_channels (f, ch, rate)) ch = g.pick_channels (f, rate) ; if (ch > 8) ch = 2 ;
	J &cfg = plan ["cfg"] ;
	cfg ["fmt"] = f.name ; cfg ["ch"] = ch ; cfg ["sr"] = rate ; cfg ["route"] = g.rng.chance (0.7) ? "vio" : "fd" ;
	int T = (int) g.rng.below (4) ; cfg ["T"] = stype_name (T) ;
	DataDesc d ; d.cls = "noise" ; d.stream = (int64_t) g.rng.below (1000) ; cfg ["data"] = data_desc_to (d) ;
	bool pure = g.rng.chance (0.6) ;		// pure: only query commands are injected, and the run is compared with the run without them
	cfg ["pure"] = pure ? 1 : 0 ;
	auto storm = [&] (J &ops, int n, bool null_handle_ok)
	{	for (int k = 0 ; k < n ; k++)
		{	J s = mkop ("storm") ; s ["cmd"] = (long long) g.rng.below (1000) ; s ["dsz"] = (long long) g.rng.pick<int64_t> ({ 0, 1, 2, 3, 3, 4, 5, 6, 7, (int64_t) g.rng.range (8, 699) }) ;
			if (g.rng.chance (0.3)) s ["null_data"] = 1 ; if (null_handle_ok && g.rng.chance (0.1)) s ["null_handle"] = 1 ; s ["fill"] = (long long) g.rng.below (1000) ;
			if (pure) s ["pure"] = 1 ;
			ops.push (s) ;
		}
	} ;
	J ops = J::arr () ;
	GenCtx gx (sub_seed (seed, "C17x", idx)) ;		// later additions draw from a stream of their own: the other choices stay what they were
	storm (ops, (int) g.rng.range (0, 3), true) ;		// no handle yet: skipped unless null_handle
	{ J o = mkop ("open") ; o ["mode"] = "w" ; ops.push (o) ; }
	if (g.rng.chance (0.5)) { J s = mkop ("setstr") ; s ["type"] = SF_STR_TITLE ; s ["len"] = 12 ; s ["stream"] = 3 ; ops.push (s) ; }
	if (g.rng.chance (0.3)) { J b = mkop ("setbext") ; b ["fill"] = 1 ; b ["hist"] = 100 ; b ["stream"] = 4 ; ops.push (b) ; }
	if (g.rng.chance (0.3)) { J c = mkop ("setcues") ; c ["count"] = (long long) g.rng.pick<int64_t> ({ 1, 3, 100, 150 }) ; c ["stream"] = 5 ; ops.push (c) ; }
	if (gx.rng.chance (0.3)) { J c = mkop ("setcart") ; c ["fill"] = 1 ; c ["tag"] = (long long) gx.rng.range (0, 200) ; c ["stream"] = 6 ; ops.push (c) ; }
	if (gx.rng.chance (0.3)) { J c = mkop ("setinstr") ; c ["loops"] = (long long) gx.rng.range (0, 3) ; c ["stream"] = 7 ; ops.push (c) ; }
	storm (ops, (int) g.rng.range (1, 8), true) ;
	int nw = (int) g.rng.range (1, 3) ; int64_t N = 0 ;
	for (int k = 0 ; k < nw ; k++)
	{	J w = mkop ("write") ; w ["T"] = stype_name (T) ; if (g.rng.chance (0.5)) w ["fr"] = 1 ; int64_t n = g.rng.range (1, 600) ; w ["n"] = (long long) n ; N += n ; ops.push (w) ;
		storm (ops, (int) g.rng.range (0, 5), true) ;
	}
	ops.push (mkop ("close")) ;
	bool rw = g.rng.chance (0.2) ;
	{ J o = mkop ("open") ; o ["mode"] = rw ? "rw" : "r" ; o ["expect"] = "any" ; ops.push (o) ; }
	int nr = (int) g.rng.range (1, 5) ;
	for (int k = 0 ; k < nr ; k++)
	{	storm (ops, (int) g.rng.range (1, 8), true) ;
		if (g.rng.chance (0.7)) { J r = mkop ("read") ; r ["T"] = stype_name ((int) g.rng.below (4)) ; r ["fr"] = 1 ; r ["n"] = (long long) g.rng.range (1, 300) ; ops.push (r) ; }
		if (g.rng.chance (0.3)) { J s = mkop ("seek") ; s ["off"] = (long long) g.rng.below ((uint64_t) N + 1) ; s ["whence"] = 0 ; ops.push (s) ; }
	}
	{ J r = mkop ("read") ; r ["T"] = stype_name (T) ; r ["fr"] = 1 ; r ["n"] = 100000 ; ops.push (r) ; }		// to the end: at EOF
	storm (ops, (int) g.rng.range (1, 6), false) ;
	{ J b = mkop ("bad") ; b ["kind"] = "seek_bad_whence" ; b ["whence"] = 9 ; ops.push (b) ; }		// after an error
	storm (ops, (int) g.rng.range (1, 4), false) ;
	ops.push (mkop ("close")) ;
	// a third of the injected commands get one of the structured datasize variants
	for (auto &op : ops.a) if (op.gets ("op") == "storm")
	{	uint64_t q = gx.rng.below (100) ;
		if (q < 8) op ["dsz"] = (long long) (gx.rng.chance (0.5) ? 100064 : 100065) ;
		else if (q < 33) op ["dsz"] = (long long) (200000 + gx.rng.below (64)) ;
	}
	J task = J::obj () ; task ["ops"] = ops ; plan ["tasks"].push (task) ;
	return plan ;
}

static Verdict check_c17 (const J &plan)
{	Verdict v ;
	Result r = execute (plan) ;
	v.absorb (r) ;
	v.fmt = plan.at ("cfg").gets ("fmt") ; v.route = plan.at ("cfg").gets ("route") ;
	v.shape = plan_shape (plan) ;
	{	std::string s ; for (auto &op : plan.at ("tasks") [0].at ("ops").a) if (op.gets ("op") == "storm") s += std::to_string (op.geti ("cmd") % 73) + ":" + std::to_string (op.geti ("dsz") > 7 ? 8 : op.geti ("dsz")) + (op.geti ("null_data") ? "n" : "") + ";" ; v.shape ^= fnv1a (s.data (), s.size ()) ; }
	static const std::map<std::string, std::string> owned = { { "storm.nul", "nul" }, { "storm.pure", "pure.digest" } } ;
	add_owned (v, "C17", r, owned) ;
	if (plan.at ("cfg").geti ("pure") && v.findings.empty ())
	{	// purity by differential replay: the same plan without the injected queries gives the same results and the same store
		J p2 = plan ; J ops2 = J::arr () ;
		for (auto &op : plan.at ("tasks") [0].at ("ops").a) if (op.gets ("op") != "storm") ops2.push (op) ;
		p2 ["tasks"][0]["ops"] = ops2 ;
		Result r2 = execute (p2) ;
		v.absorb (r2) ;
		std::vector<const Rec *> a, b ;
		for (auto &x : r.transcript [0]) if (!x.skipped && x.api.compare (0, 6, "storm:") != 0) a.push_back (&x) ;
		for (auto &x : r2.transcript [0]) if (!x.skipped) b.push_back (&x) ;
		bool same = a.size () == b.size () ; std::string where ;
		for (size_t k = 0 ; same && k < a.size () ; k++)
			if (a [k]->ret != b [k]->ret || a [k]->err != b [k]->err || a [k]->dh != b [k]->dh || a [k]->api != b [k]->api)
			{	same = false ; where = a [k]->api + ": ret " + std::to_string (a [k]->ret) + "/" + std::to_string (b [k]->ret) + " err " + std::to_string (a [k]->err) + "/" + std::to_string (b [k]->err) ; }
		if (!same) finding (v, "C17", "pure.diff", "transcript", "injected query commands changed later results: " + where) ;
		else
		{	auto ia = r.stores.find ("/sim/cwd/f0.dat"), ib = r2.stores.find ("/sim/cwd/f0.dat") ;
			if (ia != r.stores.end () && ib != r2.stores.end () && ia->second != ib->second) finding (v, "C17", "pure.diff", "store", "injected query commands changed the stored bytes") ;
		}
		v.probes ["pure_differential"] ++ ;
	}
	v.nontrivial = r.probes.count ("storm_inexact_datasize") > 0 ;
	return v ;
}

// ------------------------------------------------------------------------------------------

extern const Profile k_prof_c12 = { "C12", gen_c12, check_c12, ">= 2 metadata kinds set successfully before the audio and the file re-opened" } ;
extern const Profile k_prof_c13 = { "C13", gen_c13, check_c13, ">= 1 chunk stored before the audio and iterated after re-open" } ;
extern const Profile k_prof_c18 = { "C18", gen_c18, check_c18, "peak part: maximum not at frame 0 or ties present; calc part: >= 1 CALC command issued at an interior read position" } ;
extern const Profile k_prof_c17 = { "C17", gen_c17, check_c17, ">= 1 injected command reached sf_command with a datasize other than the command's natural size" } ;
