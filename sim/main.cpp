// sndsim: supervisor, workers, replay, shrinker, determinism gate.
#include "profiles.hpp"
#include <cerrno>
#include <csignal>
#include <cstdio>
#include <cstdlib>
#include <cstring>
#include <ctime>
#include <fcntl.h>
#include <sys/mman.h>
#include <sys/stat.h>
#include <sys/time.h>
#include <sys/wait.h>
#include <unistd.h>
#include <algorithm>
#include <functional>

// ---- sanitizer configuration (non-inline so the runtime finds them)
extern "C" __attribute__ ((used, visibility ("default"))) const char *__asan_default_options ()
{	return "exitcode=77:detect_leaks=0:abort_on_error=0:allocator_may_return_null=1:max_allocation_size_mb=1024:handle_sigfpe=1:detect_stack_use_after_return=0:symbolize=1" ;
}
extern "C" __attribute__ ((used, visibility ("default"))) const char *__ubsan_default_options ()
{	return "print_stacktrace=1:exitcode=77" ;
}

static double now_s () { struct timespec ts ; clock_gettime (CLOCK_MONOTONIC, &ts) ; return ts.tv_sec + ts.tv_nsec * 1e-9 ; }

// ------------------------------------------------------------------------------------------
// profile registry

extern const Profile k_prof_c01, k_prof_c04, k_prof_c05, k_prof_c06 ;
#ifdef HAVE_PROF_FAULT
extern const Profile k_prof_c15, k_prof_c16, k_prof_c11, k_prof_c03 ;
#endif
#ifdef HAVE_PROF_HIST
extern const Profile k_prof_c08, k_prof_c09, k_prof_c07, k_prof_c19, k_prof_c14 ;
#endif
#ifdef HAVE_PROF_META
extern const Profile k_prof_c12, k_prof_c13, k_prof_c18, k_prof_c17 ;
#endif

const std::vector<Profile> &all_profiles ()
{	static std::vector<Profile> v = { k_prof_c01, k_prof_c04, k_prof_c05, k_prof_c06
#ifdef HAVE_PROF_FAULT
		, k_prof_c15, k_prof_c16, k_prof_c11, k_prof_c03
#endif
#ifdef HAVE_PROF_HIST
		, k_prof_c08, k_prof_c09, k_prof_c07, k_prof_c19, k_prof_c14
#endif
#ifdef HAVE_PROF_META
		, k_prof_c12, k_prof_c13, k_prof_c18, k_prof_c17
#endif
	} ;
	return v ;
}
const Profile *find_profile (const std::string &id)
{	for (auto &p : all_profiles ()) if (id == p.id) return &p ;
	return nullptr ;
}

// ------------------------------------------------------------------------------------------
// verdict <-> JSON

static J verdict_to_json (const Verdict &v)
{	J j = J::obj () ;
	J fl = J::arr () ;
	for (auto &f : v.findings) { J x = J::obj () ; x ["sig"] = f.sig ; x ["detail"] = f.detail ; x ["task"] = f.task ; x ["op"] = f.op ; if (!f.plan.is_null ()) x ["plan"] = f.plan ; fl.push (x) ; }
	j ["findings"] = fl ;
	j ["hash"] = (long long) (v.hash >> 1) ;
	j ["nontrivial"] = v.nontrivial ;
	if (getenv ("VERIF_DEBUG_PARTS")) { J a = J::arr () ; for (auto x : v.parts) a.push ((long long) (x >> 1)) ; j ["parts"] = a ; }
	return j ;
}

// ------------------------------------------------------------------------------------------
// run one plan in a forked child (fresh library state); death is reported, not propagated

struct ForkOut
{	bool died = false ;
	int exit_code = 0, sig = 0 ;
	std::string err_text ;
	J verdict ;
} ;

static std::string read_file (const std::string &p)
{	std::string s ; FILE *f = fopen (p.c_str (), "rb") ; if (!f) return s ;
	// at most 4 MiB: a worker spinning in a loop that logs can leave gigabytes behind
	char b [65536] ; size_t n ; while (s.size () < (4u << 20) && (n = fread (b, 1, sizeof (b), f)) > 0) s.append (b, n) ; fclose (f) ; return s ;
}

static std::string g_tmpdir = "/verif/build/tmp" ;

static void install_watchdog (int seconds) ;

static bool check_ubsan_soft (const std::string &text, std::string &type_out) ;

static int g_fork_wd = 60 ;		// seconds of CPU time without progress allowed in a forked check
static ForkOut fork_check (const Profile &prof, const J &plan, int warm = 0, uint64_t warm_seed = 0)
{	ForkOut out ;
	char errp [256] ; snprintf (errp, sizeof (errp), "%s/fork.%d.err", g_tmpdir.c_str (), (int) getpid ()) ;
	int pfd [2] ;
	if (pipe (pfd) != 0) { out.died = true ; out.err_text = "pipe failed" ; return out ; }
	fflush (stdout) ; fflush (stderr) ;
	pid_t pid = fork () ;
	if (pid == 0)
	{	close (pfd [0]) ;
		int efd = open (errp, O_WRONLY | O_CREAT | O_TRUNC, 0644) ;
		if (efd >= 0) { dup2 (efd, 2) ; close (efd) ; }
		init_zygote () ;
		install_watchdog (g_fork_wd) ;
		g_os = new SimOS ;
		for (int k = 0 ; k < warm ; k++) { J p = prof.gen (warm_seed, 777000 + k) ; prof.check (p) ; }
		Verdict v = prof.check (plan) ;
		J j = verdict_to_json (v) ;
		std::string soft = read_file (errp), ty ;
		if (check_ubsan_soft (soft, ty))
		{	J x = J::obj () ; x ["sig"] = make_sig_raw (prof.id, "ubsan", plan.at ("cfg").gets ("fmt"), plan.at ("cfg").gets ("route"), "none", ty) ;
			x ["detail"] = "UBSan (recover mode): " + ty ; x ["task"] = 0 ; x ["op"] = 0 ; j ["findings"].push (x) ;
		}
		std::string s = j.dump () ;
		size_t off = 0 ;
		while (off < s.size ()) { ssize_t w = write (pfd [1], s.data () + off, s.size () - off) ; if (w <= 0) break ; off += w ; }
		_exit (0) ;
	}
	close (pfd [1]) ;
	std::string s ; char b [65536] ; ssize_t n ;
	while ((n = read (pfd [0], b, sizeof (b))) > 0) s.append (b, n) ;
	close (pfd [0]) ;
	int st = 0 ; waitpid (pid, &st, 0) ;
	if (WIFEXITED (st) && WEXITSTATUS (st) == 0)
	{	try { out.verdict = J::parse (s) ; } catch (...) { out.died = true ; out.err_text = "bad verdict json" ; }
	}
	else
	{	out.died = true ;
		if (WIFEXITED (st)) out.exit_code = WEXITSTATUS (st) ; else out.sig = WTERMSIG (st) ;
		out.err_text = read_file (errp) ;
	}
	unlink (errp) ;
	return out ;
}

// allow-list for -fsanitize=bounds (recover mode): flexible-array idioms, keyed by type
static bool check_ubsan_soft (const std::string &text, std::string &type_out)
{	size_t pos = 0 ;
	while ((pos = text.find ("runtime error:", pos)) != std::string::npos)
	{	size_t e = text.find ('\n', pos) ;
		std::string line = text.substr (pos, e == std::string::npos ? std::string::npos : e - pos) ;
		pos += 14 ;
		if (line.find ("SF_CUE_POINT [100]") != std::string::npos || line.find ("SF_CUE_POINT[100]") != std::string::npos) continue ;
		// ALAC decoder: uint16_t mShiftBuffer [4096] shares a union with int32_t mPredictor [4096]; the stereo path uses
		// 2 * 4096 uint16 entries, which stay inside the union's storage
		if (line.find ("uint16_t[4096]") != std::string::npos && line.find ("index") != std::string::npos)
		{	size_t ip = line.find ("index ") ; long ix = ip != std::string::npos ? strtol (line.c_str () + ip + 6, nullptr, 10) : -1 ;
			if (ix >= 4096 && ix < 8192) continue ;
		}
		size_t q = line.find ("for type '") ;
		type_out = q != std::string::npos ? line.substr (q + 10, line.find ('\'', q + 10) - q - 10) : line.substr (15, 60) ;
		for (auto &c : type_out) if (c == '|' || c == ' ') c = '_' ;
		return true ;
	}
	return false ;
}

// classify a death from exit status + sanitizer report
static void classify_death (int exit_code, int sig, const std::string &err, std::string &clause, std::string &disc)
{	clause = "crash" ; disc = "-" ;
	if (exit_code == 78)
	{	clause = "budget" ; size_t p = err.find ("why=") ; disc = p != std::string::npos ? err.substr (p + 4, err.find ('\n', p) - p - 4) : "-" ;
		// innermost repository function that kept issuing I/O
		size_t q = 0 ;
		while ((q = err.find (" in ", q)) != std::string::npos)
		{	size_t s = q + 4, e = err.find (' ', s), eol = err.find ('\n', s) ;
			if (e != std::string::npos && eol != std::string::npos && e < eol && err.substr (e, eol - e).find ("/repo/src/") != std::string::npos)
			{	std::string fn = err.substr (s, e - s) ;
				if (fn.compare (0, 4, "psf_") != 0 && fn != "header_read" && fn != "header_seek") { disc += ":" + fn ; break ; }
			}
			q += 4 ;
		}
		return ;
	}
	if (exit_code == 79) { clause = "watchdog" ; return ; }
	std::string kind ;
	size_t p = err.find ("ERROR: AddressSanitizer: ") ;
	if (p != std::string::npos)
	{	size_t s = p + 25, e = err.find_first_of (" \n", s) ;
		kind = err.substr (s, e - s) ; clause = "mem" ;
	}
	else if ((p = err.find ("runtime error: ")) != std::string::npos)
	{	size_t s = p + 15, e = err.find ('\n', s) ;
		kind = err.substr (s, std::min<size_t> (e - s, 40)) ; clause = "mem" ;
		for (auto &c : kind) if (c == ' ' || c == '|') c = '_' ;
	}
	else if (sig) { kind = "signal" + std::to_string (sig) ; clause = "crash" ; }
	else kind = "exit" + std::to_string (exit_code) ;
	// innermost frame inside the repository
	std::string func = "?" ;
	size_t q = 0 ;
	while ((q = err.find (" in ", q)) != std::string::npos)
	{	size_t s = q + 4, e = err.find (' ', s), eol = err.find ('\n', s) ;
		if (e != std::string::npos && eol != std::string::npos && e < eol)
		{	std::string rest = err.substr (e, eol - e) ;
			if (rest.find ("/repo/") != std::string::npos) { func = err.substr (s, e - s) ; break ; }
		}
		q += 4 ;
	}
	disc = kind + ":" + func ;
}

// ------------------------------------------------------------------------------------------
// watchdog (the only real clock; its only verdict is "this plan did not terminate")

static volatile int64_t *g_slot = nullptr ;
static char *g_plan_buf = nullptr ;			// shared with the supervisor: explicit sub-plan currently executing
static const size_t k_plan_buf = 1 << 18 ;
static volatile int64_t g_progress = 0 ;		// bumped for every sub-execution of an enumeration profile
void note_current_plan (const J &plan)
{	g_progress = g_progress + 1 ;
	if (!g_plan_buf) return ;
	if (plan.is_null ()) { g_plan_buf [0] = 0 ; return ; }
	std::string s = plan.dump () ;
	if (s.size () + 1 >= k_plan_buf) { g_plan_buf [0] = 0 ; return ; }
	memcpy (g_plan_buf + 1, s.data () + 1, s.size ()) ; g_plan_buf [0] = s [0] ;
}
static int64_t g_wd_last = -2 ;
static int g_wd_ticks = 0, g_wd_limit = 20 ;
static void on_alarm (int)
{	int64_t cur = (g_slot ? *g_slot : -1) * 1000003 + g_progress ;
	if (cur == g_wd_last) { if (++ g_wd_ticks >= g_wd_limit) { const char m [] = "SIMDIE code=79 why=watchdog\n" ; if (write (2, m, sizeof (m) - 1) < 0) {} _exit (79) ; } }
	else { g_wd_last = cur ; g_wd_ticks = 0 ; }
}
static void install_watchdog (int seconds)
{	g_wd_limit = seconds ; g_wd_ticks = 0 ; g_wd_last = -2 ;
	struct sigaction sa ; memset (&sa, 0, sizeof (sa)) ; sa.sa_handler = on_alarm ; sigaction (SIGVTALRM, &sa, nullptr) ;
	// ticks of the process's own CPU time, not of the wall clock: the verdict must not depend on how loaded the machine is
	struct itimerval it ; it.it_interval.tv_sec = 1 ; it.it_interval.tv_usec = 0 ; it.it_value = it.it_interval ;
	setitimer (ITIMER_VIRTUAL, &it, nullptr) ;
}

// ------------------------------------------------------------------------------------------
// worker

struct Stats
{	uint64_t evals = 0, nontrivial = 0, findings = 0, execs = 0, io_steps = 0, api_calls = 0 ;
	int64_t clock_span = 0 ;
	std::set<uint64_t> shapes, nt_shapes, states ;
	std::map<std::string, uint64_t> probes, formats, routes ;
	void clear () { *this = Stats () ; }
	J to_json () const
	{	J j = J::obj () ;
		j ["evals"] = (long long) evals ; j ["nontrivial"] = (long long) nontrivial ; j ["findings"] = (long long) findings ;
		j ["execs"] = (long long) execs ; j ["io_steps"] = (long long) io_steps ; j ["api_calls"] = (long long) api_calls ; j ["clock_span"] = (long long) clock_span ;
		J a = J::arr () ; for (auto s : shapes) a.push ((long long) (s >> 1)) ; j ["shapes"] = a ;
		J b = J::arr () ; for (auto s : nt_shapes) b.push ((long long) (s >> 1)) ; j ["nt_shapes"] = b ;
		J c = J::arr () ; for (auto s : states) c.push ((long long) (s >> 1)) ; j ["states"] = c ;
		J p = J::obj () ; for (auto &kv : probes) p [kv.first] = (long long) kv.second ; j ["probes"] = p ;
		J f = J::obj () ; for (auto &kv : formats) f [kv.first] = (long long) kv.second ; j ["formats"] = f ;
		J r = J::obj () ; for (auto &kv : routes) r [kv.first] = (long long) kv.second ; j ["routes"] = r ;
		return j ;
	}
	void merge_json (const J &j)
	{	evals += j.geti ("evals") ; nontrivial += j.geti ("nontrivial") ; findings += j.geti ("findings") ; execs += j.geti ("execs") ;
		io_steps += j.geti ("io_steps") ; api_calls += j.geti ("api_calls") ; clock_span = std::max<int64_t> (clock_span, j.geti ("clock_span")) ;
		for (auto &x : j.at ("shapes").a) shapes.insert ((uint64_t) x.num ()) ;
		for (auto &x : j.at ("nt_shapes").a) nt_shapes.insert ((uint64_t) x.num ()) ;
		for (auto &x : j.at ("states").a) states.insert ((uint64_t) x.num ()) ;
		for (auto &kv : j.at ("probes").o) probes [kv.first] += kv.second.num () ;
		for (auto &kv : j.at ("formats").o) formats [kv.first] += kv.second.num () ;
		for (auto &kv : j.at ("routes").o) routes [kv.first] += kv.second.num () ;
	}
} ;

static void worker_main (const Profile &prof, uint64_t seed, uint64_t first, uint64_t stride, uint64_t end, const std::string &outpath, volatile int64_t *slot, int max_findings, char *planbuf)
{	g_slot = slot ; g_plan_buf = planbuf ;
	init_zygote () ;		// before this process first touches the library
	install_watchdog (30) ;
	g_os = new SimOS ;
	FILE *out = fopen (outpath.c_str (), "wb") ;
	if (!out) _exit (3) ;
	Stats st ;
	uint64_t since = 0 ;
	int nfind = 0 ;
	off_t errpos = lseek (2, 0, SEEK_CUR) ;
	for (uint64_t idx = first ; idx < end ; idx += stride)
	{	*slot = (int64_t) idx ;
		if (g_plan_buf) g_plan_buf [0] = 0 ;
		J plan = prof.gen (seed, idx) ;
		Verdict v = prof.check (plan) ;
		off_t np = lseek (2, 0, SEEK_CUR) ;
		if (np > errpos)
		{	// soft sanitizer report (bounds in recover mode) during this plan
			char path [64] ; snprintf (path, sizeof (path), "/proc/self/fd/2") ;
			std::string txt = read_file (path) ; std::string ty ;
			std::string fresh = errpos < (off_t) txt.size () ? txt.substr ((size_t) errpos) : txt ;
			if (check_ubsan_soft (fresh, ty))
			{	Finding f ; f.sig = make_sig_raw (prof.id, "ubsan", plan.at ("cfg").gets ("fmt"), plan.at ("cfg").gets ("route"), "none", ty) ; f.detail = "UBSan (recover mode): " + ty ;
				v.findings.push_back (f) ;
			}
			errpos = np ;
		}
		st.evals ++ ; st.execs += v.execs ; st.io_steps += v.io_steps ; st.api_calls += v.api_calls ; st.clock_span = std::max (st.clock_span, v.clock_span) ;
		st.shapes.insert (v.shape) ;
		if (v.nontrivial) { st.nontrivial ++ ; st.nt_shapes.insert (v.shape) ; }
		for (auto &kv : v.probes) st.probes [kv.first] += kv.second ;
		st.states.insert (v.states.begin (), v.states.end ()) ;
		if (!v.fmt.empty ()) st.formats [v.fmt] ++ ;
		if (!v.route.empty ()) st.routes [v.route] ++ ;
		if (!v.findings.empty ())
		{	st.findings += v.findings.size () ;
			if (nfind < max_findings)
			{	J line = J::obj () ; line ["type"] = "finding" ; line ["idx"] = (long long) idx ;
				J fl = J::arr () ;
				for (auto &f : v.findings) { J x = J::obj () ; x ["sig"] = f.sig ; x ["detail"] = f.detail ; x ["task"] = f.task ; x ["op"] = f.op ; if (!f.plan.is_null ()) x ["plan"] = f.plan ; fl.push (x) ; }
				line ["findings"] = fl ; line ["plan"] = plan ;
				std::string s = line.dump () ; fputs (s.c_str (), out) ; fputc ('\n', out) ; fflush (out) ;
				nfind ++ ;
			}
		}
		if (++ since >= 1000)
		{	J line = J::obj () ; line ["type"] = "stats" ; line ["stats"] = st.to_json () ;
			std::string s = line.dump () ; fputs (s.c_str (), out) ; fputc ('\n', out) ; fflush (out) ;
			st.clear () ; since = 0 ;
		}
	}
	*slot = -1 ;
	J line = J::obj () ; line ["type"] = "stats" ; line ["stats"] = st.to_json () ; line ["final"] = 1 ;
	std::string s = line.dump () ; fputs (s.c_str (), out) ; fputc ('\n', out) ; fclose (out) ;
	_exit (0) ;
}

// ------------------------------------------------------------------------------------------
// supervisor

struct Args
{	std::map<std::string, std::string> kv ;
	std::vector<std::string> pos ;
	std::string get (const std::string &k, const std::string &d = "") const { auto it = kv.find (k) ; return it == kv.end () ? d : it->second ; }
	int64_t geti (const std::string &k, int64_t d) const { auto it = kv.find (k) ; return it == kv.end () ? d : strtoll (it->second.c_str (), nullptr, 10) ; }
} ;
static Args parse_args (int argc, char **argv, int from)
{	Args a ;
	for (int k = from ; k < argc ; k++)
	{	std::string s = argv [k] ;
		if (s.compare (0, 2, "--") == 0)
		{	std::string key = s.substr (2) ;
			if (k + 1 < argc && strncmp (argv [k + 1], "--", 2) != 0) a.kv [key] = argv [++ k] ; else a.kv [key] = "1" ;
		}
		else a.pos.push_back (s) ;
	}
	return a ;
}

static int cmd_run (const Args &a)
{	const Profile *prof = find_profile (a.pos.size () ? a.pos [0] : "") ;
	if (!prof) { fprintf (stderr, "unknown profile\n") ; return 2 ; }
	uint64_t seed = (uint64_t) a.geti ("seed", 1), start = (uint64_t) a.geti ("start", 0), count = (uint64_t) a.geti ("count", 1000) ;
	int jobs = (int) a.geti ("jobs", 16) ;
	double wall_cap = (double) a.geti ("max-seconds", 0) ;
	int max_deaths = (int) a.geti ("max-deaths", 40) ;
	std::string outdir = a.get ("outdir", "/verif/build/run") ;
	mkdir (outdir.c_str (), 0755) ;
	if ((uint64_t) jobs > count) jobs = (int) std::max<uint64_t> (1, count) ;
	volatile int64_t *slots = (volatile int64_t *) mmap (nullptr, sizeof (int64_t) * jobs, PROT_READ | PROT_WRITE, MAP_SHARED | MAP_ANONYMOUS, -1, 0) ;
	char *planbufs = (char *) mmap (nullptr, k_plan_buf * jobs, PROT_READ | PROT_WRITE, MAP_SHARED | MAP_ANONYMOUS, -1, 0) ;
	double t0 = now_s () ;
	struct W { pid_t pid = -1 ; int inc = 0 ; uint64_t next = 0 ; bool finished = false ; } ;
	std::vector<W> ws (jobs) ;
	std::vector<std::string> outfiles ;
	J deaths = J::arr () ;
	uint64_t end = start + count ;
	auto spawn = [&] (int j)
	{	W &w = ws [j] ;
		char op [512], ep [512] ;
		snprintf (op, sizeof (op), "%s/w%d.%d.jsonl", outdir.c_str (), j, w.inc) ;
		snprintf (ep, sizeof (ep), "%s/w%d.%d.err", outdir.c_str (), j, w.inc) ;
		outfiles.push_back (op) ;
		slots [j] = -1 ;
		fflush (stdout) ; fflush (stderr) ;
		pid_t pid = fork () ;
		if (pid == 0)
		{	int efd = open (ep, O_RDWR | O_CREAT | O_TRUNC, 0644) ;
			if (efd >= 0) { dup2 (efd, 2) ; close (efd) ; }
			worker_main (*prof, seed, w.next, (uint64_t) jobs, end, op, &slots [j], 50, planbufs + k_plan_buf * j) ;
			_exit (0) ;
		}
		w.pid = pid ;
	} ;
	for (int j = 0 ; j < jobs ; j++) { ws [j].next = start + j ; spawn (j) ; }
	int alive = jobs ;
	bool stopped_early = false ;
	while (alive > 0)
	{	int st = 0 ;
		pid_t pid = waitpid (-1, &st, 0) ;
		if (pid < 0) { if (errno == EINTR) continue ; break ; }
		int j = -1 ; for (int k = 0 ; k < jobs ; k++) if (ws [k].pid == pid) j = k ;
		if (j < 0) continue ;
		W &w = ws [j] ;
		if (WIFEXITED (st) && WEXITSTATUS (st) == 0) { w.finished = true ; alive -- ; continue ; }
		int64_t idx = slots [j] ;
		char ep [512] ; snprintf (ep, sizeof (ep), "%s/w%d.%d.err", outdir.c_str (), j, w.inc) ;
		J d = J::obj () ; d ["idx"] = (long long) idx ;
		d ["exit"] = WIFEXITED (st) ? WEXITSTATUS (st) : 0 ; d ["signal"] = WIFSIGNALED (st) ? WTERMSIG (st) : 0 ;
		std::string err = read_file (ep) ; if (err.size () > 6000) err = err.substr (0, 6000) ;
		d ["stderr"] = err ;
		{	char *pb = planbufs + k_plan_buf * j ; pb [k_plan_buf - 1] = 0 ;
			if (pb [0]) { try { J sp = J::parse (std::string (pb)) ; if (sp.is_obj ()) d ["subplan"] = sp ; } catch (...) {} }
		}
		deaths.push (d) ;
		bool too_many = (int) deaths.size () >= max_deaths || (wall_cap > 0 && now_s () - t0 > wall_cap) ;
		if (idx >= 0 && (uint64_t) idx + jobs < end && !too_many) { w.inc ++ ; w.next = (uint64_t) idx + jobs ; spawn (j) ; }
		else { if (too_many) stopped_early = true ; w.finished = true ; alive -- ; }
	}
	// merge worker output
	Stats total ;
	J findings = J::arr () ;
	for (auto &p : outfiles)
	{	FILE *f = fopen (p.c_str (), "rb") ; if (!f) continue ;
		std::string line ; int c ;
		while ((c = fgetc (f)) != EOF)
		{	if (c != '\n') { line += (char) c ; continue ; }
			try
			{	J j = J::parse (line) ;
				if (j.gets ("type") == "stats") total.merge_json (j.at ("stats")) ;
				else if (j.gets ("type") == "finding") findings.push (j) ;
			} catch (...) {}
			line.clear () ;
		}
		fclose (f) ;
	}
	// confirm every death in a fresh process and turn it into a finding
	J confirmed = J::arr () ;
	int unconfirmed = 0 ;
	for (auto &d : deaths.a)
	{	int64_t idx = d.geti ("idx", -1) ;
		if (idx < 0) { unconfirmed ++ ; continue ; }
		J plan = d.has ("subplan") ? d.at ("subplan") : prof->gen (seed, (uint64_t) idx) ;
		// a worker stopped by the watchdog (30 s of its own CPU time inside one execution) is confirmed with a lower limit, so
		// that the confirmation cannot come out the other way because of a few percent of timing noise
		bool wd = d.geti ("exit", 0) == 79 ;
		if (wd) g_fork_wd = 20 ;
		ForkOut fo = fork_check (*prof, plan) ;
		g_fork_wd = 60 ;
		std::string clause, disc ;
		if (fo.died)
		{	classify_death (fo.exit_code, fo.sig, fo.err_text, clause, disc) ;
			J fnd = J::obj () ; fnd ["type"] = "finding" ; fnd ["idx"] = (long long) idx ;
			std::string fault = plan.at ("faults").size () ? plan.at ("faults") [0].gets ("kind") : "none" ;
			J x = J::obj () ; x ["sig"] = make_sig_raw (prof->id, clause, plan.at ("cfg").gets ("fmt"), plan.at ("cfg").gets ("route"), fault, disc) ;
			std::string det = fo.err_text.substr (0, 1500) ;
			x ["detail"] = "process died: " + det ; x ["task"] = 0 ; x ["op"] = 0 ; x ["death"] = 1 ;
			J fl = J::arr () ; fl.push (x) ; fnd ["findings"] = fl ; fnd ["plan"] = plan ;
			findings.push (fnd) ;
		}
		else
		{	// died in the worker but not in a fresh process: dependence on earlier library use, or a harness problem
			classify_death ((int) d.geti ("exit"), (int) d.geti ("signal"), d.gets ("stderr"), clause, disc) ;
			J u = J::obj () ; u ["idx"] = (long long) idx ; u ["clause"] = clause ; u ["disc"] = disc ; u ["stderr"] = d.gets ("stderr").substr (0, 1500) ;
			confirmed.push (u) ; unconfirmed ++ ;
		}
	}
	double wall = now_s () - t0 ;
	J sum = J::obj () ;
	sum ["profile"] = prof->id ; sum ["seed"] = (long long) seed ; sum ["start"] = (long long) start ; sum ["count"] = (long long) count ;
	sum ["jobs"] = jobs ; sum ["wall_s"] = wall ;
	sum ["stats"] = total.to_json () ;
	sum ["distinct_shapes"] = (long long) total.shapes.size () ;
	sum ["distinct_nontrivial"] = (long long) total.nt_shapes.size () ;
	sum ["distinct_states"] = (long long) total.states.size () ;
	sum ["deaths"] = (long long) deaths.size () ;
	sum ["unconfirmed_deaths"] = confirmed ;
	sum ["stopped_early"] = stopped_early ;
	sum ["nontrivial_rule"] = prof->nontrivial_rule ;
	// findings grouped by signature (first = smallest index)
	std::map<std::string, J> by_sig ;
	std::map<std::string, int64_t> sig_count ;
	std::vector<J> fl (findings.a.begin (), findings.a.end ()) ;
	std::sort (fl.begin (), fl.end (), [] (const J &x, const J &y) { return x.geti ("idx") < y.geti ("idx") ; }) ;
	for (auto &f : fl)
		for (auto &x : f.at ("findings").a)
		{	std::string sig = x.gets ("sig") ;
			sig_count [sig] ++ ;
			if (!by_sig.count (sig)) { J e = J::obj () ; e ["sig"] = sig ; e ["idx"] = f.geti ("idx") ; e ["detail"] = x.gets ("detail") ; e ["plan"] = x.has ("plan") ? x.at ("plan") : f.at ("plan") ; e ["death"] = x.geti ("death", 0) ; by_sig [sig] = e ; }
		}
	J sigs = J::arr () ;
	for (auto &kv : by_sig) { J e = kv.second ; e ["count"] = (long long) sig_count [kv.first] ; sigs.push (e) ; }
	sum ["signatures"] = sigs ;
	J samples = J::arr () ;
	for (uint64_t k = 0 ; k < 3 && k < count ; k++) samples.push (prof->gen (seed, start + k * (count / 3 + 1))) ;
	sum ["samples"] = samples ;
	sum.save (outdir + "/summary.json") ;
	printf ("run %s seed=%llu count=%llu evals=%llu shapes=%zu nontrivial=%zu states=%zu signatures=%zu deaths=%zu wall=%.1fs\n", prof->id, (unsigned long long) seed,
		(unsigned long long) count, (unsigned long long) total.evals, total.shapes.size (), total.nt_shapes.size (), total.states.size (), by_sig.size (), deaths.size (), wall) ;
	return 0 ;
}

// ------------------------------------------------------------------------------------------
// single-plan commands

static int cmd_gen (const Args &a)
{	const Profile *prof = find_profile (a.pos.size () ? a.pos [0] : "") ;
	if (!prof) return 2 ;
	g_os = new SimOS ;
	J p = prof->gen ((uint64_t) a.geti ("seed", 1), (uint64_t) a.geti ("idx", 0)) ;
	printf ("%s\n", p.dump ().c_str ()) ;
	return 0 ;
}

static J run_plan_report (const Profile &prof, const J &plan)
{	ForkOut fo = fork_check (prof, plan) ;
	J rep = J::obj () ;
	if (fo.died)
	{	std::string clause, disc ; classify_death (fo.exit_code, fo.sig, fo.err_text, clause, disc) ;
		std::string fault = plan.at ("faults").size () ? plan.at ("faults") [0].gets ("kind") : "none" ;
		J x = J::obj () ; x ["sig"] = make_sig_raw (prof.id, clause, plan.at ("cfg").gets ("fmt"), plan.at ("cfg").gets ("route"), fault, disc) ;
		x ["detail"] = "process died: " + fo.err_text.substr (0, 3000) ;
		J fl = J::arr () ; fl.push (x) ; rep ["findings"] = fl ; rep ["died"] = 1 ; rep ["hash"] = 0 ;
	}
	else rep = fo.verdict ;
	return rep ;
}

static int cmd_one (const Args &a)
{	const Profile *prof = find_profile (a.pos.size () ? a.pos [0] : "") ;
	if (!prof) return 2 ;
	J plan ;
	if (a.kv.count ("plan")) { if (!J::load (a.get ("plan"), plan)) return 2 ; if (plan.has ("plan")) { J inner = plan.at ("plan") ; plan = inner ; } }
	else { g_os = new SimOS ; plan = prof->gen ((uint64_t) a.geti ("seed", 1), (uint64_t) a.geti ("idx", 0)) ; }
	J rep ;
	if (a.kv.count ("pre"))
	{	// run the given plan indices first, in this process, then the target (debugging history dependence)
		g_os = new SimOS ;
		std::string l = a.get ("pre") ; size_t p0 = 0 ;
		while (p0 < l.size ()) { size_t e = l.find (',', p0) ; if (e == std::string::npos) e = l.size () ; uint64_t i = strtoull (l.substr (p0, e - p0).c_str (), nullptr, 10) ; J pp = prof->gen ((uint64_t) a.geti ("seed", 1), i) ; prof->check (pp) ; p0 = e + 1 ; }
		Verdict v = prof->check (plan) ; rep = verdict_to_json (v) ;
	}
	else if (a.kv.count ("warm")) { ForkOut fo = fork_check (*prof, plan, (int) a.geti ("warm", 50), (uint64_t) a.geti ("seed", 1) ^ 0x5555) ; rep = fo.verdict ; }
	else rep = run_plan_report (*prof, plan) ;
	if (a.kv.count ("show-plan")) printf ("%s\n", plan.dump ().c_str ()) ;
	printf ("%s\n", rep.dump ().c_str ()) ;
	return rep.at ("findings").size () ? 1 : 0 ;
}

static bool has_sig (const J &rep, const std::string &sig)
{	for (auto &f : rep.at ("findings").a) if (f.gets ("sig") == sig) return true ;
	return false ;
}

// ---- replay: explicit plan in a fresh process; exit 1 iff the recorded signature reproduces
static int cmd_replay (const Args &a)
{	if (a.pos.empty ()) return 2 ;
	J file ;
	if (!J::load (a.pos [0], file)) { fprintf (stderr, "cannot read %s\n", a.pos [0].c_str ()) ; return 2 ; }
	const Profile *prof = find_profile (file.gets ("profile")) ;
	if (!prof) return 2 ;
	std::string sig = file.gets ("signature") ;
	J rep = run_plan_report (*prof, file.at ("plan")) ;
	bool same = has_sig (rep, sig) ;
	bool hash_ok = rep.geti ("hash") == file.geti ("result_hash", rep.geti ("hash")) ;
	printf ("replay %s: signature %s%s\n", a.pos [0].c_str (), same ? "REPRODUCED" : "not reproduced", same && !hash_ok ? " (result hash differs)" : "") ;
	for (auto &f : rep.at ("findings").a) printf ("  %s :: %s\n", f.gets ("sig").c_str (), f.gets ("detail").substr (0, 400).c_str ()) ;
	if (same) { printf ("VIOLATION property=%s replay=%s\n", prof->id, a.pos [0].c_str ()) ; return 1 ; }
	return 0 ;
}

// ---- shrink: ddmin over ops, then faults / schedules, then arguments; every candidate in a forked child
static int cmd_shrink (const Args &a)
{	if (a.pos.size () < 1) return 2 ;
	J in ;
	if (!J::load (a.pos [0], in)) return 2 ;
	std::string sig = a.get ("sig", in.gets ("sig")) ;
	J plan = in.has ("plan") ? in.at ("plan") : in ;
	const Profile *prof = find_profile (plan.gets ("profile")) ;
	if (!prof) return 2 ;
	int budget = (int) a.geti ("budget", 400), used = 0 ;
	// a hang is re-confirmed by the watchdog in every candidate that still hangs: a few CPU seconds without progress are enough here
	// (the reported plan is confirmed again with the full limit by the gate), and the number of candidates stays small
	if (sig.find (".watchdog|") != std::string::npos) { g_fork_wd = 5 ; if (!a.kv.count ("budget")) budget = 40 ; }
	auto fails = [&] (const J &p) -> bool { if (used >= budget) return false ; used ++ ; J rep = run_plan_report (*prof, p) ; return has_sig (rep, sig) ; } ;
	if (!fails (plan)) { fprintf (stderr, "shrink: original plan does not reproduce %s\n", sig.c_str ()) ; return 2 ; }
	// 1. tasks
	while (plan ["tasks"].size () > 1)
	{	bool any = false ;
		for (size_t t = plan ["tasks"].size () ; t -- > 0 && plan ["tasks"].size () > 1 ; )
		{	J c = plan ; c ["tasks"].a.erase (c ["tasks"].a.begin () + t) ;
			if (fails (c)) { plan = c ; any = true ; }
		}
		if (!any) break ;
	}
	// 2. ddmin over each task's ops
	for (size_t t = 0 ; t < plan ["tasks"].size () ; t++)
	{	size_t chunk = std::max<size_t> (1, plan ["tasks"][t]["ops"].size () / 2) ;
		while (chunk >= 1)
		{	bool any = false ;
			for (size_t s = plan ["tasks"][t]["ops"].size () ; s > 0 ; )
			{	size_t lo = s > chunk ? s - chunk : 0 ;
				J c = plan ; auto &ops = c ["tasks"][t]["ops"].a ;
				ops.erase (ops.begin () + lo, ops.begin () + s) ;
				// faults refer to op indices: shift
				for (auto &f : c ["faults"].a) if ((size_t) f.geti ("task") == t && (size_t) f.geti ("op") >= s) f ["op"] = (long long) (f.geti ("op") - (s - lo)) ;
				if (fails (c)) { plan = c ; any = true ; }
				s = lo ;
			}
			if (chunk == 1 && !any) break ;
			if (!any) chunk /= 2 ; else chunk = std::min (chunk, std::max<size_t> (1, plan ["tasks"][t]["ops"].size () / 2)) ;
			if (chunk == 0) break ;
		}
	}
	// 3. faults, schedules
	for (size_t k = plan ["faults"].size () ; k -- > 0 ; ) { J c = plan ; c ["faults"].a.erase (c ["faults"].a.begin () + k) ; if (fails (c)) plan = c ; }
	for (auto &f : plan ["faults"].a)
	{	if (f.geti ("persistent")) { J save = f ; f ["persistent"] = 0 ; if (!fails (plan)) f = save ; }
		while (f.geti ("io") > 1) { J save = f ; f ["io"] = f.geti ("io") / 2 ; if (!fails (plan)) { f = save ; break ; } }
	}
	if (plan.has ("io")) { J c = plan ; c.erase ("io") ; if (fails (c)) plan = c ; }
	if (plan.has ("sched")) { J c = plan ; c.erase ("sched") ; if (fails (c)) plan = c ; }
	// 4. arguments
	for (auto &t : plan ["tasks"].a)
		for (auto &op : t ["ops"].a)
		{	for (const char *key : { "n", "off", "arg", "len", "count" })
				while (op.has (key) && std::llabs (op.geti (key)) > 1)
				{	J save = op ; op [key] = op.geti (key) / 2 ; if (!fails (plan)) { op = save ; break ; } }
			if (op.has ("fr")) { J save = op ; op.erase ("fr") ; if (!fails (plan)) op = save ; }
		}
	{	J &cfg = plan ["cfg"] ;
		if (cfg.geti ("ch", 1) > 1) { J save = cfg ; cfg ["ch"] = 1 ; if (!fails (plan)) cfg = save ; }
		if (cfg.geti ("ch", 1) > 2) { J save = cfg ; cfg ["ch"] = 2 ; if (!fails (plan)) cfg = save ; }
		if (cfg.has ("sr") && cfg.geti ("sr") != 8000) { J save = cfg ; cfg ["sr"] = 8000 ; if (!fails (plan)) cfg = save ; }
		if (cfg.has ("data")) for (const char *cls : { "zeros", "ramp" }) { J save = cfg ; cfg ["data"]["class"] = cls ; if (fails (plan)) break ; cfg = save ; }
		if (cfg.gets ("route") != "vio" && cfg.has ("route")) { J save = cfg ; cfg ["route"] = "vio" ; if (!fails (plan)) cfg = save ; }
	}
	J rep = run_plan_report (*prof, plan) ;
	J out = J::obj () ;
	out ["profile"] = prof->id ; out ["signature"] = sig ; out ["plan"] = plan ;
	out ["result_hash"] = rep.geti ("hash") ;
	out ["origin"] = in.has ("idx") ? J ((long long) in.geti ("idx")) : J () ;
	out ["origin_seed"] = plan.geti ("seed") ;
	for (auto &f : rep.at ("findings").a) if (f.gets ("sig") == sig) out ["detail"] = f.gets ("detail") ;
	out ["shrink_runs"] = used ;
	std::string op = a.get ("out", "/verif/build/tmp/shrunk.json") ;
	out.save (op) ;
	size_t nops = 0 ; for (auto &t : plan ["tasks"].a) nops += t ["ops"].size () ;
	printf ("shrunk to %zu ops in %d runs -> %s\n", nops, used, op.c_str ()) ;
	return 0 ;
}

// ---- determinism gate: the same plans inside a long-lived worker (after a warm-up) and in fresh processes
static int cmd_gate (const Args &a)
{	const Profile *prof = find_profile (a.pos.size () ? a.pos [0] : "") ;
	if (!prof) return 2 ;
	uint64_t seed = (uint64_t) a.geti ("seed", 1), count = (uint64_t) a.geti ("count", 64), start = (uint64_t) a.geti ("start", 0) ;
	uint64_t stride = (uint64_t) a.geti ("stride", 1) ;
	// A: one long-lived child runs all plans in sequence after a warm-up
	int pfd [2] ; if (pipe (pfd)) return 2 ;
	fflush (stdout) ;
	pid_t pid = fork () ;
	if (pid == 0)
	{	close (pfd [0]) ;
		g_os = new SimOS ;
		install_watchdog (60) ;
		for (int k = 0 ; k < 50 ; k++) { J p = prof->gen (seed ^ 0x5555, 777000 + k) ; prof->check (p) ; }
		for (uint64_t k = 0 ; k < count ; k++)
		{	J p = prof->gen (seed, start + k * stride) ;
			Verdict v = prof->check (p) ;
			uint64_t h = v.hash >> 1 ;
			for (auto &f : v.findings) h = fnv1a (f.sig.data (), f.sig.size (), h) >> 1 ;
			if (getenv ("VERIF_DEBUG_PARTS")) { fprintf (stderr, "A idx %llu:", (unsigned long long) (start + k * stride)) ; for (auto x : v.parts) fprintf (stderr, " %llx", (unsigned long long) x) ; for (auto &f : v.findings) fprintf (stderr, " %s", f.sig.c_str ()) ; fprintf (stderr, "\n") ; }
			if (write (pfd [1], &h, 8) != 8) _exit (3) ;
		}
		_exit (0) ;
	}
	close (pfd [1]) ;
	std::vector<uint64_t> ha ;
	uint64_t h ; while (read (pfd [0], &h, 8) == 8) ha.push_back (h) ;
	close (pfd [0]) ;
	int st ; waitpid (pid, &st, 0) ;
	int mism = 0, checked = 0, died = 0 ;
	g_os = nullptr ;
	for (uint64_t k = 0 ; k < count ; k++)
	{	// plan generation itself must not depend on process history either: generate in the child
		int q [2] ; if (pipe (q)) return 2 ;
		pid_t c = fork () ;
		if (c == 0)
		{	close (q [0]) ; g_os = new SimOS ; install_watchdog (60) ;
			J p = prof->gen (seed, start + k * stride) ;
			Verdict v = prof->check (p) ;
			uint64_t hh = v.hash >> 1 ;
			for (auto &f : v.findings) hh = fnv1a (f.sig.data (), f.sig.size (), hh) >> 1 ;
			if (getenv ("VERIF_DEBUG_PARTS")) { fprintf (stderr, "B idx %llu:", (unsigned long long) (start + k * stride)) ; for (auto x : v.parts) fprintf (stderr, " %llx", (unsigned long long) x) ; for (auto &f : v.findings) fprintf (stderr, " %s", f.sig.c_str ()) ; fprintf (stderr, "\n") ; }
			if (write (q [1], &hh, 8) != 8) _exit (3) ;
			_exit (0) ;
		}
		close (q [1]) ;
		uint64_t hb = 0 ; bool got = read (q [0], &hb, 8) == 8 ; close (q [0]) ;
		int s2 ; waitpid (c, &s2, 0) ;
		if (!got) { died ++ ; if (k < ha.size ()) { mism ++ ; printf ("gate: idx %llu died in fresh process but not in worker\n", (unsigned long long) (start + k * stride)) ; } continue ; }
		if (k >= ha.size ()) { died ++ ; continue ; }
		checked ++ ;
		if (ha [k] != hb) { mism ++ ; printf ("gate: idx %llu hash differs worker=%llx fresh=%llx\n", (unsigned long long) (start + k * stride), (unsigned long long) ha [k], (unsigned long long) hb) ; }
	}
	printf ("GATE profile=%s checked=%d mismatches=%d died=%d\n", prof->id, checked, mism, died) ;
	return mism ? 2 : 0 ;
}

// debugging aid: execute a plan as is (no oracle ownership filter), print transcript and violations, optionally dump the stores
static int cmd_exec (const Args &a)
{	J plan ;
	if (!J::load (a.get ("plan"), plan)) return 2 ;
	if (plan.has ("plan")) { J inner = plan.at ("plan") ; plan = inner ; }
	g_os = new SimOS ;
	ExecOpts xo ; if (a.kv.count ("pt")) { xo.passthrough = true ; xo.pt_root = a.get ("pt") ; }
	Result r = execute (plan, xo) ;
	for (size_t t = 0 ; t < r.transcript.size () ; t++)
		for (size_t k = 0 ; k < r.transcript [t].size () ; k++)
		{	const Rec &x = r.transcript [t][k] ;
			printf ("t%zu op%zu %-22s ret=%lld err=%d dh=%016llx%s%s\n", t, k, x.api.c_str (), (long long) x.ret, x.err, (unsigned long long) x.dh, x.skipped ? " skipped" : "", x.faulted ? " faulted" : "") ;
		}
	for (auto &v : r.viols) printf ("VIOL %s [%s] task %d op %d: %s\n", v.clause.c_str (), v.disc.c_str (), v.task, v.op, v.detail.c_str ()) ;
	for (auto &o : r.obs) if (a.kv.count ("obs")) printf ("OBS %s\n", o.dump ().substr (0, 600).c_str ()) ;
	if (a.kv.count ("dump"))
		for (auto &kv : r.stores)
		{	std::string fn = a.get ("dump") + "/" + kv.first.substr (kv.first.rfind ('/') + 1) ;
			FILE *f = fopen (fn.c_str (), "wb") ; if (f) { fwrite (kv.second.data (), 1, kv.second.size (), f) ; fclose (f) ; }
			printf ("store %s %zu bytes -> %s\n", kv.first.c_str (), kv.second.size (), fn.c_str ()) ;
		}
	return 0 ;
}

static int cmd_formats ()
{	g_os = new SimOS ;
	for (auto &f : all_formats ())
		printf ("%-28s 0x%08x bits=%d float=%d double=%d lossy=%d block=%d max_ch=%d B(1ch,8000)=%d\n", f.name.c_str (), f.format, f.bits, f.is_float, f.is_double, f.lossy, f.block_codec, f.max_ch, block_frames (f, 1, 8000)) ;
	printf ("%zu formats\n", all_formats ().size ()) ;
	return 0 ;
}

// ------------------------------------------------------------------------------------------
// ptcheck: the same fault-free plans on SimOS and with the library's system calls passed through to the real kernel

static int cmd_ptcheck (const Args &a)
{	const Profile *prof = find_profile (a.pos.size () ? a.pos [0] : "") ;
	if (!prof) { fprintf (stderr, "unknown profile\n") ; return 2 ; }
	uint64_t seed = (uint64_t) a.geti ("seed", 1), start = (uint64_t) a.geti ("start", 0), count = (uint64_t) a.geti ("count", 200), stride = (uint64_t) a.geti ("stride", 1) ;
	std::string root = a.get ("root", g_tmpdir + "/pt." + std::to_string ((int) getpid ())) ;
	g_os = new SimOS ;
	install_watchdog (30) ;		// CPU seconds without progress (a library call that spins without doing I/O)
	uint64_t checked = 0, mism = 0, skipped = 0, syscalls = 0 ;
	std::string first ;
	for (uint64_t k = 0 ; k < count ; k++)
	{	uint64_t idx = start + k * stride ;
		J plan = prof->gen (seed, idx) ;
		if (!plan.has ("tasks") || plan.at ("tasks").size () == 0) { skipped ++ ; continue ; }
		// descriptor-level routes only make sense through the kernel: everything goes by path, no faults, no benign schedules
		bool ok = true ;
		plan.erase ("faults") ; plan.erase ("io") ;
		const Fmt *f = find_format_name (plan.at ("cfg").gets ("fmt")) ;
		if (!f) { skipped ++ ; continue ; }
		plan ["cfg"]["route"] = "path" ; plan ["cfg"].erase ("fd0") ;
		for (auto &t : plan ["tasks"].a) for (auto &op : t ["ops"].a)
		{	if (op.has ("route")) { std::string r = op.gets ("route") ; if (r == "fifo" || r == "embed") ok = false ; else op ["route"] = "path" ; }
			std::string kind = op.gets ("op") ; if (kind == "crash" || kind == "badopen" || kind == "bad" || kind == "storm") ok = false ;
		}
		if (!ok) { skipped ++ ; continue ; }
		note_current_plan (J ()) ;		// progress tick for the watchdog
		ExecOpts e1 ; Result r1 = execute (plan, e1) ;
		ExecOpts e2 ; e2.passthrough = true ; e2.pt_root = root ; Result r2 = execute (plan, e2) ;
		checked ++ ; syscalls += r1.io.steps ;
		std::string why ;
		if (a.kv.count ("simsim")) { ExecOpts e3 ; r2 = execute (plan, e3) ; }		// control: the simulated run against itself
		if (r1.transcript.size () != r2.transcript.size ()) why = "task count" ;
		for (size_t t = 0 ; why.empty () && t < r1.transcript.size () ; t++)
		{	if (r1.transcript [t].size () != r2.transcript [t].size ()) { why = "transcript length" ; break ; }
			for (size_t o = 0 ; o < r1.transcript [t].size () ; o++)
			{	const Rec &x = r1.transcript [t][o], &y = r2.transcript [t][o] ;
				if (x.api != y.api || x.ret != y.ret || x.err != y.err || x.dh != y.dh || x.skipped != y.skipped)
				{	char b [300] ; snprintf (b, sizeof (b), "task %zu op %zu (%s): sim ret=%lld err=%d dh=%llx / kernel ret=%lld err=%d dh=%llx", t, o, x.api.c_str (), (long long) x.ret, x.err, (unsigned long long) x.dh, (long long) y.ret, y.err, (unsigned long long) y.dh) ; why = b ; break ; }
			}
		}
		if (why.empty ())
		{	for (auto &kv : r1.stores) { auto it = r2.stores.find (kv.first) ; if (it == r2.stores.end () || it->second != kv.second) { why = "store " + kv.first + " differs" ; break ; } }
			if (why.empty () && r1.stores.size () != r2.stores.size ()) why = "set of stores differs" ;
		}
		if (why.empty () && r1.viols.size () != r2.viols.size ()) why = "oracle verdicts differ" ;
		if (!why.empty ()) { mism ++ ; if (first.empty ()) first = "idx " + std::to_string (idx) + ": " + why ;
			if (getenv ("VERIF_PT_DEBUG")) for (size_t q = 0 ; q < r1.obs.size () && q < r2.obs.size () ; q++) if (r1.obs [q].dump () != r2.obs [q].dump ()) { printf ("OBS1 %s\nOBS2 %s\n", r1.obs [q].dump ().c_str (), r2.obs [q].dump ().c_str ()) ; break ; } }
	}
	g_os->pt_root = root ; g_os->pt_wipe () ;
	rmdir ((root + "/cwd").c_str ()) ; rmdir ((root + "/tmp").c_str ()) ; rmdir (root.c_str ()) ;
	printf ("PTCHECK profile=%s checked=%llu mismatches=%llu skipped=%llu sim_io_steps=%llu\n", prof->id, (unsigned long long) checked, (unsigned long long) mism, (unsigned long long) skipped, (unsigned long long) syscalls) ;
	if (!first.empty ()) printf ("  first: %s\n", first.c_str ()) ;
	return mism ? 1 : 0 ;
}

int main (int argc, char **argv)
{	setenv ("TMPDIR", "/sim/tmp", 1) ;
	if (argc < 2) { fprintf (stderr, "usage: sndsim run|gen|one|replay|shrink|gate|formats ...\n") ; return 2 ; }
	std::string cmd = argv [1] ;
	Args a = parse_args (argc, argv, 2) ;
	if (a.kv.count ("tmpdir")) g_tmpdir = a.get ("tmpdir") ;
	mkdir (g_tmpdir.c_str (), 0755) ;
	g_thorough = a.get ("tier") == "thorough" ;
	if (cmd == "run") return cmd_run (a) ;
	if (cmd == "gen") return cmd_gen (a) ;
	if (cmd == "one") return cmd_one (a) ;
	if (cmd == "replay") return cmd_replay (a) ;
	if (cmd == "shrink") return cmd_shrink (a) ;
	if (cmd == "gate") return cmd_gate (a) ;
	if (cmd == "ptcheck") return cmd_ptcheck (a) ;
	if (cmd == "formats") return cmd_formats () ;
	if (cmd == "exec") return cmd_exec (a) ;
	fprintf (stderr, "unknown command %s\n", cmd.c_str ()) ;
	return 2 ;
}
