// Profiles: one generator (seed index -> plan) and one check (plan -> verdict) per property.
#pragma once
#include <map>
#include <set>
#include <string>
#include <vector>
#include "exec.hpp"
#include "rng.hpp"

struct Finding
{	std::string sig ;			// property.clause|container|codec|route|fault|disc
	std::string detail ;
	int task = 0, op = 0 ;
	J plan ;						// explicit plan reproducing this finding when it differs from the generated one (enumeration profiles)
} ;

struct Verdict
{	std::vector<Finding> findings ;
	bool nontrivial = false ;
	uint64_t shape = 0 ;
	uint64_t hash = 0 ;								// everything the run produced (determinism gate)
	std::map<std::string, uint64_t> probes ;
	std::set<uint64_t> states ;
	std::string fmt, route ;
	uint64_t io_steps = 0, api_calls = 0, execs = 0 ;
	int64_t clock_span = 0 ;
	J extra ;											// e.g. fault points for enumeration profiles
	std::vector<uint64_t> parts ;						// per execution: trace, transcript, store hashes (debugging the determinism gate)
	void absorb (const Result &r) ;
} ;

struct Profile
{	const char *id ;
	J (*gen) (uint64_t seed, uint64_t idx) ;
	Verdict (*check) (const J &plan) ;
	const char *nontrivial_rule ;
} ;

const Profile *find_profile (const std::string &id) ;
const std::vector<Profile> &all_profiles () ;

extern bool g_thorough ;		// --tier thorough: generators may ask for deeper enumeration (recorded in the plan, so replay needs no flag)

// helpers shared by profile implementations
std::string make_sig (const std::string &prop, const std::string &clause, const Viol &v) ;
std::string make_sig_raw (const std::string &prop, const std::string &clause, const std::string &fmt, const std::string &route, const std::string &fault, const std::string &disc) ;
uint64_t plan_shape (const J &plan) ;
uint64_t sub_seed (uint64_t seed, const char *profile, uint64_t idx) ;
void add_owned (Verdict &v, const std::string &prop, const Result &r, const std::map<std::string, std::string> &owned) ;
J plan_skeleton (const char *profile, uint64_t seed, uint64_t idx) ;
// Fresh-process oracle: the plan executed in a process that has never run library code (forked from a zygote that was itself forked
// before this process first called the library). Returns false when no zygote is available. hashes = transcript hash per task,
// then the hash of every store in name order.
bool fresh_execute (const J &plan, std::vector<uint64_t> &hashes) ;
void result_hashes (const Result &r, std::vector<uint64_t> &hashes) ;
void init_zygote () ;

// initial-memory differential: the plan once more on different initial memory (fresh heap blocks / unused stack); results and file bytes must not change
void memory_differential (Verdict &v, const char *prop, const J &plan, const Result &r0) ;

// generator building blocks
struct GenCtx
{	Rng rng ;
	explicit GenCtx (uint64_t s) : rng (s) {}
	int pick_channels (const Fmt &f, int rate) ;
	int pick_rate (const Fmt &f, bool wide) ;
	int64_t pick_frames (int B, int ch, int64_t cap) ;			// request size class, in frames
	std::string pick_class (bool is_real) ;
	std::string pick_route (const Fmt &f, bool allow_fd) ;
} ;
void gen_benign_io (GenCtx &g, J &plan) ;
