# checks beyond the four written out in mkmanifest.py; PENDING = designed but not built yet
CHECKS = {
 'C15': ('fault_enumeration', 'fault-point enumeration: every I/O step of the fault-free run of the faulted phase x applicable fault kinds x {single-shot, persistent}; quick samples points per plan without replacement, thorough enumerates; containment oracle (step budget, return ranges, position deltas, ASan, resource audit, failed open, accepted data not corrupted)', '3 C15'),
 'C16': ('exploration', 'resource audit at the end of every plan: allocation ledger (link-time malloc seam), simulated descriptor table, simulated namespace (temp files), close return value; histories biased to failing opens at every parse depth, allocating commands, ALAC temp files, SD2 resource forks, injected faults', '3 C16'),
 'C11': ('fault_enumeration', 'crash-point enumeration: after every header update (explicit or automatic) the store is copied and parsed by an independent recovery reader; frames/params/prefix/eof compared with the model; differential run without updates for audio.unchanged', '3 C11'),
 'C03': ('exploration', 'storage-corruption faults (bit rot, torn/zeroed/misdirected sectors, field overwrites, truncation, junk) injected into valid images of every writable format, then seeded API histories over VIO / descriptor / path / FIFO routes under ASan, invariant hook and the simulated-I/O step budget', '3 C03'),
}
CHECKS.update({
 'C08': ('exploration', 'read/write-mode op histories (write, read, seek x whence x mode flag, truncate, header update, close/re-open) against a two-pointer sequential model with wildcard gap frames, on the simulated descriptor route so that truncation is real; final fresh read-only open compared with the model', '3 C08'),
 'C09': ('exploration', 'invalid calls injected at seeded points of valid histories: documented failure value, non-empty error text, side-effect-free state digest (hook) and unchanged store bytes; success leaves error 0; failed opens leave nothing behind (audit)', '3 C09'),
 'C07': ('exploration', 'one sample stream written under several schedules (call partitions, item/frame variants, explicit and automatic header updates) and at a jumped simulated clock: stores must be byte-identical except documented timestamp fields', '3 C07'),
 'C19': ('exploration', '2-8 cooperative client tasks, one handle each, interleaved call by call by a seeded scheduler (uniform, round-robin, bursty, starving); per-task transcript and final store equal the solo run; error state of other handles unchanged after every step', '3 C19'),
 'C14': ('exploration', 'one plan executed over path, descriptor (close_desc 0/1), virtual I/O, embedded-at-offset (read and write) and FIFO transports on the simulated OS: transcripts, stores and descriptor ownership compared', '3 C14'),
})
CHECKS.update({
 'C12': ('exploration', 'metadata set-ops (strings, bext, cart, cues, instrument, channel map) in seeded orders, before and after the audio, + header updates; close, cold re-open, getters compared with a per-field map model carrying only the documented normalisations; audio compared with the value model', '3 C12'),
 'C13': ('exploration', '0..200 sf_set_chunk calls (capacity steps crossed, short / reserved / long ids in a quarter of the plans, payloads up to 64 KiB), late chunks, then iterator histories after re-open (by id, full walk, next-after-last, datalen variants in exact-size buffers) against a list model; ASan + invariant hook on the chunk tables', '3 C13'),
 'C18': ('exploration', 'float/double write partitions against a running-max / first-index model, checked in the PEAK chunk bytes and through SFC_GET_*; SFC_CALC_* injected at seeded read positions, compared with an independent sequential decode, position / normalisation restored, following reads unchanged', '3 C18'),
 'C17': ('exploration', 'command storm client injected into write / read / read-write histories: every command id (and undefined ids) x datasize variants x {NULL, exact-size heap block}; ASan on the exact-size block, NUL termination, purity of queries by state digest and by differential replay without the injected queries', '3 C17'),
})
PENDING = {p: 'check designed in DESIGN.md section 3 but not built yet in this revision (to be claimed when its profile exists)' for p in
           []}
