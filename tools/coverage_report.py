#!/usr/bin/python3
# Summarises llvm-cov results: per profile and overall line coverage of /repo/src, per source file overall, and the anchored
# functions of properties.jsonl that were never entered.
import json, subprocess, sys, os, re, glob
B = sys.argv[1]
def export(profdata):
    r = subprocess.run(['llvm-cov-14', 'export', '-summary-only', '-instr-profile', profdata, B + '/sndsim'], capture_output=True, text=True)
    return json.loads(r.stdout)['data'][0]
def src_only(data):
    files = [f for f in data['files'] if f['filename'].startswith('/repo/src/')]
    cov = sum(f['summary']['lines']['covered'] for f in files); tot = sum(f['summary']['lines']['count'] for f in files)
    fcov = sum(f['summary']['functions']['covered'] for f in files); ftot = sum(f['summary']['functions']['count'] for f in files)
    return files, cov, tot, fcov, ftot
out = {'per_profile': {}, 'files': {}}
for pd in sorted(glob.glob(B + '/prof/C*.profdata')):
    files, cov, tot, fcov, ftot = src_only(export(pd))
    out['per_profile'][os.path.basename(pd)[:3]] = {'lines_covered': cov, 'lines_total': tot, 'line_pct': round(100.0 * cov / max(tot, 1), 1), 'functions_covered': fcov, 'functions_total': ftot}
files, cov, tot, fcov, ftot = src_only(export(B + '/prof/all.profdata'))
out['all'] = {'lines_covered': cov, 'lines_total': tot, 'line_pct': round(100.0 * cov / max(tot, 1), 1), 'functions_covered': fcov, 'functions_total': ftot}
for f in sorted(files, key=lambda f: f['filename']):
    s = f['summary']['lines']
    out['files'][f['filename'][len('/repo/src/'):]] = {'line_pct': round(s['percent'], 1), 'lines': s['count'], 'functions_not_entered': f['summary']['functions']['count'] - f['summary']['functions']['covered']}
json.dump(out, open(B + '/coverage.json', 'w'), indent=1)
print('all profiles: %.1f %% of %d lines, %d of %d functions entered' % (out['all']['line_pct'], tot, fcov, ftot))
for k, v in out['per_profile'].items(): print(' ', k, v['line_pct'], '%')
low = sorted(((v['line_pct'], k, v['lines']) for k, v in out['files'].items() if v['lines'] > 40), key=lambda x: x[0])[:25]
print('least covered files:', ', '.join('%s %.0f%%' % (k, p) for p, k, n in low))
