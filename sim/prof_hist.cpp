// History profiles: C08 (RDWR two-pointer model), C09 (invalid calls), C07 (bytes independent of write split / clock),
// C19 (handle isolation under interleaving), C14 (route equivalence: path / descriptor / virtual I/O / embedded / pipe).
#include "profiles.hpp"
#include <algorithm>

static J mkop (const char *op) { J j = J::obj () ; j ["op"] = op ; return j ; }
void note_current_plan (const J &plan) ;

static bool is_alac (const Fmt &f) { return f.sub >= SF_FORMAT_ALAC_16 && f.sub <= SF_FORMAT_ALAC_32 ; }
static bool is_dwvw (const Fmt &f) { return f.sub == SF_FORMAT_DWVW_12 || f.sub == SF_FORMAT_DWVW_16 || f.sub == SF_FORMAT_DWVW_24 || f.sub == SF_FORMAT_DWVW_N ; }
static bool is_dpcm (const Fmt &f) { return f.sub == SF_FORMAT_DPCM_8 || f.sub == SF_FORMAT_DPCM_16 ; }

static bool stores_equal_x (const std::map<std::string, std::vector<uint8_t>> &a, const std::map<std::string, std::vector<uint8_t>> &b, const std::string &name, std::string &where, std::vector<size_t> *diffs = nullptr)
{	auto ia = a.find (name), ib = b.find (name) ;
	if (ia == a.end () || ib == b.end ()) { where = name + " missing" ; return false ; }
	const auto &x = ia->second, &y = ib->second ;
	bool eq = x.size () == y.size () ;
	size_t n = std::min (x.size (), y.size ()), first = n ;
	for (size_t k = 0 ; k < n ; k++) if (x [k] != y [k]) { eq = false ; if (first == n) first = k ; if (diffs) diffs->push_back (k) ; else break ; }
	if (!eq) { char b [160] ; snprintf (b, sizeof (b), "%s: sizes %zu / %zu, first difference at byte %zu", name.c_str (), x.size (), y.size (), first) ; where = b ; }
	return eq ;
}

static bool transcripts_equal_t (const std::vector<Rec> &x, const std::vector<Rec> &y, std::string &where, bool ignore_seek = false)
{	size_t i = 0, j = 0 ;
	for (;;)
	{	while (i < x.size () && (x [i].skipped || (ignore_seek && x [i].api == "seek"))) i++ ;
		while (j < y.size () && (y [j].skipped || (ignore_seek && y [j].api == "seek"))) j++ ;
		if (i >= x.size () || j >= y.size ()) break ;
		bool is_open = x [i].api.compare (0, 5, "open:") == 0 && y [j].api.compare (0, 5, "open:") == 0 ;
		if (x [i].ret != y [j].ret || x [i].err != y [j].err || x [i].dh != y [j].dh || (!is_open && x [i].api != y [j].api))
		{	char b [240] ; snprintf (b, sizeof (b), "op %zu (%s / %s): ret %lld/%lld err %d/%d data %016llx/%016llx", i, x [i].api.c_str (), y [j].api.c_str (), (long long) x [i].ret, (long long) y [j].ret, x [i].err, y [j].err, (unsigned long long) x [i].dh, (unsigned long long) y [j].dh) ;
			where = b ; return false ;
		}
		i++ ; j++ ;
	}
	if ((i < x.size ()) != (j < y.size ())) { where = "transcript lengths differ" ; return false ; }
	return true ;
}

// ------------------------------------------------------------------------------------------ C08

static std::vector<const Fmt *> rdwr_formats ()
{	std::vector<const Fmt *> v ;
	for (auto &f : all_formats ())
	{	if (f.block_codec || f.lossy || is_alac (f) || is_dwvw (f) || is_dpcm (f) || needs_path_route (f)) continue ;
		bool ll = false ; for (int T = 0 ; T < 4 ; T++) if (lossless_lowzero (f, T) >= 0) ll = true ;
		if (ll) v.push_back (&f) ;
	}
	return v ;
}

// Bounded-exhaustive part of C08 (thorough tier, every second plan): all sequences up to depth 4 over a 12-letter alphabet
// {write 3, read 2, seven seeks covering the three whence values and the three flag variants, truncate 2, update-header,
// close/re-open}, from an empty and from a 5-frame file, for one sample-granular format per container, on the descriptor route
// (where SFC_FILE_TRUNCATE works). Sequence number e enumerates container (fastest), start state, then sequences in order of length.
static J gen_c08_enum (uint64_t seed, uint64_t idx, uint64_t e)
{	static std::vector<const Fmt *> conts = [] { std::vector<const Fmt *> v ; std::set<int> seen ;
		for (auto f : rdwr_formats ()) if (!seen.count (f->major) && lossless_lowzero (*f, T_SHORT) >= 0) { seen.insert (f->major) ; v.push_back (f) ; } return v ; } () ;
	J plan = plan_skeleton ("C08", seed, idx) ;
	const Fmt &f = *conts [e % conts.size ()] ; e /= conts.size () ;
	bool prepop = e % 2 ; e /= 2 ;
	std::vector<int> seq ; { uint64_t n = e, len = 1, span = 12 ; while (len < 4 && n >= span) { n -= span ; span *= 12 ; len ++ ; } n %= span ; for (uint64_t k = 0 ; k < len ; k++) { seq.push_back ((int) (n % 12)) ; n /= 12 ; } }
	int rate = 8000, ch = valid_channels (f, 1, rate) ? 1 : 2 ;
	J &cfg = plan ["cfg"] ;
	cfg ["fmt"] = f.name ; cfg ["ch"] = ch ; cfg ["sr"] = rate ; cfg ["route"] = "fd" ; cfg ["T"] = "short" ; cfg ["model"] = "short" ; cfg ["enumerated"] = (long long) seq.size () ;
	DataDesc d ; d.cls = "noise" ; d.k = 3 ; d.stream = (int64_t) (idx % 1000) ; cfg ["data"] = data_desc_to (d) ;
	J ops = J::arr () ;
	if (prepop) { J o = mkop ("open") ; o ["mode"] = "w" ; ops.push (o) ; J w = mkop ("write") ; w ["T"] = "short" ; w ["fr"] = 1 ; w ["n"] = 5 ; ops.push (w) ; ops.push (mkop ("close")) ; }
	{ J o = mkop ("open") ; o ["mode"] = "rw" ; o ["expect"] = "any" ; ops.push (o) ; }
	auto seek = [&] (int64_t off, int whence, int flag) { J s = mkop ("seek") ; s ["off"] = (long long) off ; s ["whence"] = whence ; s ["flag"] = flag ; ops.push (s) ; } ;
	for (int a : seq) switch (a)
	{	case 0 : { J w = mkop ("write") ; w ["T"] = "short" ; w ["fr"] = 1 ; w ["n"] = 3 ; ops.push (w) ; } break ;
		case 1 : { J r = mkop ("read") ; r ["T"] = "short" ; r ["fr"] = 1 ; r ["n"] = 2 ; ops.push (r) ; } break ;
		case 2 : seek (0, 0, 0) ; break ;
		case 3 : seek (2, 0, SFM_READ) ; break ;
		case 4 : seek (4, 0, SFM_WRITE) ; break ;
		case 5 : seek (1, 1, 0) ; break ;
		case 6 : seek (-1, 2, SFM_READ) ; break ;
		case 7 : seek (0, 2, SFM_WRITE) ; break ;
		case 8 : seek (7, 0, 0) ; break ;
		case 9 : { J c = mkop ("cmd") ; c ["id"] = "truncate" ; c ["arg"] = 2 ; ops.push (c) ; } break ;
		case 10 : if (has_header (f)) { J c = mkop ("cmd") ; c ["id"] = "update_header" ; ops.push (c) ; } break ;
		default : { ops.push (mkop ("close")) ; J o = mkop ("open") ; o ["mode"] = "rw" ; o ["expect"] = "any" ; ops.push (o) ; } break ;
	}
	ops.push (mkop ("close")) ;
	{ J o = mkop ("open") ; o ["mode"] = "r" ; o ["expect"] = "any" ; ops.push (o) ; }
	{ J r = mkop ("read") ; r ["T"] = "short" ; r ["fr"] = 1 ; r ["n"] = 40 ; ops.push (r) ; }
	ops.push (mkop ("close")) ;
	J task = J::obj () ; task ["ops"] = ops ; plan ["tasks"].push (task) ;
	return plan ;
}

static J gen_c08 (uint64_t seed, uint64_t idx)
{	// the sample-granular lossless formats, plus the one block-based encoding the library opens for read/write: 24-bit PAF (blocks of
	// ten frames). Its sessions keep every write, write-side seek target and file length on block boundaries, where the frame-exact
	// model applies unchanged; reads and read-side seeks go anywhere.
	static std::vector<const Fmt *> fmts = [] { std::vector<const Fmt *> v = rdwr_formats () ;
		for (auto &f : all_formats ()) if (f.major == SF_FORMAT_PAF && f.sub == SF_FORMAT_PCM_24) v.push_back (&f) ; return v ; } () ;
	if (g_thorough && idx % 2 == 0) return gen_c08_enum (seed, idx, idx / 2) ;
	J plan = plan_skeleton ("C08", seed, idx) ;
	GenCtx g (sub_seed (seed, "C08", idx)) ;
	const Fmt &f = *fmts [idx % fmts.size ()] ;
	const int64_t G = f.block_codec ? 10 : 1 ;
	if (G > 1) plan ["cfg"]["gran"] = (long long) G ;
	std::vector<int> Ts ; for (int T = 0 ; T < 4 ; T++) if (lossless_lowzero (f, T) >= 0) Ts.push_back (T) ;
	int T = g.rng.pick (Ts) ;
	int rate = g.pick_rate (f, false) ;
	int ch = g.pick_channels (f, rate) ; if (ch > 8) ch = valid_channels (f, 2, rate) ? 2 : 1 ;
	uint64_t rr = g.rng.below (100) ;
	std::string route = rr < 35 ? "fd" : rr < 55 ? "fdnc" : rr < 80 ? "path" : "vio" ;
	J &cfg = plan ["cfg"] ;
	cfg ["fmt"] = f.name ; cfg ["ch"] = ch ; cfg ["sr"] = rate ; cfg ["route"] = route ; cfg ["T"] = stype_name (T) ; cfg ["model"] = stype_name (T) ;
	DataDesc d ; d.cls = g.pick_class (f.is_float || f.is_double) ; d.k = (int) g.rng.range (1, 8) ; d.stream = (int64_t) g.rng.below (1000) ; cfg ["data"] = data_desc_to (d) ;
	J ops = J::arr () ;
	GenCtx gx (sub_seed (seed, "C08x", idx)) ;		// later additions: a stream of their own
	int64_t frames = 0, rd = 0, wr = 0 ;
	bool prepop = g.rng.chance (0.6) ;
	if (prepop)
	{	J o = mkop ("open") ; o ["mode"] = "w" ; ops.push (o) ;
		int nw = (int) g.rng.range (1, 3) ;
		for (int k = 0 ; k < nw ; k++) { J w = mkop ("write") ; w ["T"] = stype_name (T) ; if (g.rng.chance (0.5)) w ["fr"] = 1 ; int64_t n = G * g.rng.range (1, 300 / G) ; w ["n"] = (long long) n ; frames += n ; ops.push (w) ; }
		// a quarter of the pre-populated files carry a chunk behind the audio (string set after the last write): appending in the
		// read/write session then has to go over it, and the chunk has to be back behind the audio after close
		if (gx.rng.chance (0.25)) { J s = mkop ("setstr") ; s ["type"] = SF_STR_COMMENT ; s ["len"] = (long long) gx.rng.range (1, 60) ; s ["stream"] = 7 ; ops.push (s) ; }
		ops.push (mkop ("close")) ;
	}
	{ J o = mkop ("open") ; o ["mode"] = "rw" ; o ["expect"] = "any" ; ops.push (o) ; }
	rd = 0 ; wr = frames ;
	int nops = (int) g.rng.range (3, 40) ;
	bool in_rw = true ;
	for (int k = 0 ; k < nops ; k++)
	{	uint64_t q = g.rng.below (100) ;
		if (!in_rw) break ;
		if (q < 30)
		{	J w = mkop ("write") ; w ["T"] = stype_name (T) ; if (g.rng.chance (0.5)) w ["fr"] = 1 ; int64_t n = G * g.rng.range (1, 120 / G) ; w ["n"] = (long long) n ; ops.push (w) ;
			wr += n ; if (wr > frames) frames = wr ;
		}
		else if (q < 55)
		{	J r = mkop ("read") ; r ["T"] = stype_name (T) ; if (g.rng.chance (0.5)) r ["fr"] = 1 ; int64_t n = g.rng.range (1, 150) ; r ["n"] = (long long) n ; ops.push (r) ;
			rd = std::min (frames, rd + n) ;
		}
		else if (q < 85)
		{	J s = mkop ("seek") ;
			int whence = (int) g.rng.below (3) ;
			int flag = (int) g.rng.pick<int> ({ 0, SFM_READ, SFM_WRITE }) ;
			if (G > 1 && flag == 0) flag = g.rng.chance (0.5) ? SFM_READ : SFM_WRITE ;		// this codec moves one pointer at a time
			int64_t tgt = g.rng.chance (0.15) ? frames + (int64_t) g.rng.below (20) : (frames > 0 ? (int64_t) g.rng.below ((uint64_t) frames + 1) : 0) ;
			if (flag != SFM_READ) tgt -= tgt % G ;
			if (flag == SFM_READ && tgt > frames) tgt = frames ;
			if (g.rng.chance (0.05)) tgt = -1 - (int64_t) g.rng.below (3) ;
			int64_t base = whence == 0 ? 0 : whence == 2 ? frames : (flag == SFM_READ ? rd : wr) ;
			// plain SEEK_CUR with differing pointers: the text does not fix the base (either pointer is accepted by the oracle), but it does
			// say that both pointers end up at the position returned. Half of these seeks are kept (the generator assumes the write
			// pointer as base only to keep its own bookkeeping going), many of them with offset 0.
			if (whence == 1 && flag == 0 && rd != wr) { if (g.rng.chance (0.5)) { whence = 0 ; base = 0 ; } else { base = wr ; if (g.rng.chance (0.4)) tgt = wr ; } }
			if (G > 1 && whence == 1 && flag == 0 && rd != wr) { whence = 0 ; base = 0 ; }
			s ["off"] = (long long) (tgt - base) ; s ["whence"] = whence ; s ["flag"] = flag ; ops.push (s) ;
			if (tgt >= 0) { if (flag == SFM_READ) rd = tgt ; else if (flag == SFM_WRITE) wr = tgt ; else { rd = tgt ; wr = tgt ; } }
		}
		else if (q < 90 && route != "vio" && frames > 0 && G == 1)
		{	J c = mkop ("cmd") ; c ["id"] = "truncate" ; int64_t n = (int64_t) g.rng.below ((uint64_t) frames + 1) ; c ["arg"] = (long long) n ; ops.push (c) ;
			frames = n ; rd = n ; wr = n ;
			// a third of the truncations are the last thing done with the handle: nothing rewrites the length before close does
			if (g.rng.chance (0.35)) { ops.push (mkop ("close")) ; in_rw = false ; }
		}
		else if (q < 93 && has_header (f)) { J c = mkop ("cmd") ; c ["id"] = "update_header" ; ops.push (c) ; }
		else if (q < 94) { J c = mkop ("cmd") ; c ["id"] = "sync" ; ops.push (c) ; }
		else if (q < 98) { ops.push (mkop ("close")) ; J o = mkop ("open") ; o ["mode"] = "rw" ; ops.push (o) ; rd = 0 ; wr = frames ; }
		else { ops.push (mkop ("close")) ; in_rw = false ; }
	}
	if (in_rw && gx.rng.chance (0.3))
	{	// a read that runs into the end of the audio, directly followed by a write (an append, unless the write pointer was moved):
		// the switch has to re-position the file even though both pointers may now be equal
		int64_t back = (int64_t) gx.rng.below (20) ; if (back > frames) back = frames ;
		J s = mkop ("seek") ; s ["off"] = (long long) -back ; s ["whence"] = 2 ; s ["flag"] = SFM_READ ; ops.push (s) ;
		J r = mkop ("read") ; r ["T"] = stype_name (T) ; if (gx.rng.chance (0.5)) r ["fr"] = 1 ; r ["n"] = (long long) (back + gx.rng.range (1, 6)) ; ops.push (r) ;
		J w = mkop ("write") ; w ["T"] = stype_name (T) ; if (gx.rng.chance (0.5)) w ["fr"] = 1 ; int64_t n = G * gx.rng.range (1, 60 / G) ; w ["n"] = (long long) n ; ops.push (w) ;
		rd = frames ; wr += n ; if (wr > frames) frames = wr ;
	}
	if (in_rw && G > 1 && frames >= 3 * G && gx.rng.chance (0.4))
	{	// block codec: the last thing before close is a write of less than a block at the start of a block inside the existing audio.
		// The rest of that block has to keep what it held (the codec has to load the block before it overwrites part of it).
		int64_t tgt = G * (int64_t) gx.rng.below ((uint64_t) (frames / G - 1)) ;
		J s = mkop ("seek") ; s ["off"] = (long long) tgt ; s ["whence"] = 0 ; s ["flag"] = SFM_WRITE ; ops.push (s) ;
		J w = mkop ("write") ; w ["T"] = stype_name (T) ; w ["fr"] = 1 ; w ["n"] = (long long) gx.rng.range (1, G - 1) ; w ["tail"] = 1 ; ops.push (w) ;
	}
	if (in_rw) ops.push (mkop ("close")) ;
	// final fresh read-only open sees exactly the final frame sequence and count
	{ J o = mkop ("open") ; o ["mode"] = "r" ; ops.push (o) ; }
	{ J r = mkop ("read") ; r ["T"] = stype_name (T) ; r ["fr"] = 1 ; r ["n"] = (long long) (frames + 5) ; ops.push (r) ; }
	ops.push (mkop ("close")) ;
	J task = J::obj () ; task ["ops"] = ops ;
	plan ["tasks"].push (task) ;
	return plan ;
}

static Verdict check_c08 (const J &plan)
{	Verdict v ;
	Result r = execute (plan) ;
	v.absorb (r) ;
	static const std::map<std::string, std::string> owned = {
		{ "data.model", "data" }, { "seek.ret", "ret" }, { "seek.pos", "ptr" }, { "read.pos", "ptr" }, { "write.pos", "ptr" }, { "write.frames", "ptr" },
		{ "read.short_not_eof", "final" }, { "read.beyond_eof", "final" }, { "frames.range", "final" }, { "truncate.state", "truncate" }, { "truncate.failed", "truncate" },
		{ "write.count", "ret" }, { "open.fail#read", "final" } } ;
	add_owned (v, "C08", r, owned) ;
	{	// history discriminator: the file carried a chunk behind the audio (string set after the last write of the first session)
		bool wrote = false, tail = false ;
		for (auto &op : plan.at ("tasks") [0].at ("ops").a)
		{	std::string k = op.gets ("op") ;
			if (k == "write") wrote = true ; else if (k == "setstr" && wrote) tail = true ; else if (k == "close" || (k == "open" && wrote)) break ;
		}
		bool upd = false ; for (auto &op : plan.at ("tasks") [0].at ("ops").a) if (op.gets ("op") == "cmd" && (op.gets ("id") == "update_header" || op.gets ("id") == "auto_header")) upd = true ;
		if (tail) for (auto &fd : v.findings) fd.sig += upd ? "+tail_chunk+header_update" : "+tail_chunk" ;
	}
	v.fmt = plan.at ("cfg").gets ("fmt") ; v.route = plan.at ("cfg").gets ("route") ;
	v.shape = plan_shape (plan) ;
	// non-trivial: at least one read->write and one write->read switch inside an RDWR session, and a flagged seek
	bool rw = false, wr = false, flagged = false ; std::string last ;
	const J &ops = plan.at ("tasks") [0].at ("ops") ;
	for (size_t k = 0 ; k < ops.size () && k < r.transcript [0].size () ; k++)
	{	if (r.transcript [0][k].skipped) continue ;
		std::string op = ops [k].gets ("op") ;
		if (op == "read" || op == "write") { if (last == "read" && op == "write") rw = true ; if (last == "write" && op == "read") wr = true ; last = op ; }
		if (op == "seek" && ops [k].geti ("flag")) flagged = true ;
		if (op == "open") last = "" ;
	}
	v.nontrivial = rw && wr && flagged ;
	if (plan.at ("cfg").geti ("enumerated", 0)) { v.nontrivial = true ; v.probes [("enumerated_depth_" + std::to_string (plan.at ("cfg").geti ("enumerated"))).c_str ()] ++ ; }
	return v ;
}

// ------------------------------------------------------------------------------------------ C09

static const char *k_bad_kinds [] = { "read_wrong_mode", "write_wrong_mode", "read_misaligned", "write_misaligned", "read_negative", "write_negative", "seek_bad_whence",
	"seek_wrong_flag", "seek_out_of_range", "seek_nonseekable", "cmd_unknown", "cmd_bad_size", "cmd_after_data", "setstr_read_handle", "setstr_bad_type", "setstr_null", "setchunk_null", "setstr_empty", "seek_beyond_write",
	"raw_read_misaligned", "raw_write_misaligned", "setmeta_invalid" } ;
static const char *k_badopen_kinds [] = { "null_info", "bad_mode", "zero_format", "zero_minor", "invalid_format", "zero_channels", "missing_path", "empty_store", "junk_store", "bad_fd" } ;

static J gen_bad (GenCtx &g)
{	J b = mkop ("bad") ; b ["kind"] = k_bad_kinds [g.rng.below (22)] ; b ["T"] = stype_name ((int) g.rng.below (4)) ; b ["n"] = (long long) g.rng.range (0, 40) ;
	if (g.rng.chance (0.5)) b ["fr"] = 1 ; if (g.rng.chance (0.5)) b ["beyond"] = 1 ; if (g.rng.chance (0.5)) b ["null"] = 1 ;
	b ["whence"] = (int) g.rng.pick<int> ({ 3, 7, 99, -1, 0x1000 }) ;
	return b ;
}

static J gen_c09 (uint64_t seed, uint64_t idx)
{	const std::vector<Fmt> &fmts = all_formats () ;
	J plan = plan_skeleton ("C09", seed, idx) ;
	GenCtx g (sub_seed (seed, "C09", idx)) ;
	const Fmt &f = fmts [idx % fmts.size ()] ;
	int rate = g.pick_rate (f, false) ;
	int ch = g.pick_channels (f, rate) ; if (ch > 8) ch = valid_channels (f, 2, rate) ? 2 : 1 ;
	J &cfg = plan ["cfg"] ;
	cfg ["fmt"] = f.name ; cfg ["ch"] = ch ; cfg ["sr"] = rate ; cfg ["route"] = g.pick_route (f, true) ;
	int T = (int) g.rng.below (4) ; cfg ["T"] = stype_name (T) ;
	DataDesc d ; d.cls = "sine" ; d.stream = (int64_t) g.rng.below (100) ; cfg ["data"] = data_desc_to (d) ;
	J ops = J::arr () ;
	int B = block_frames (f, ch, rate) ;
	if (g.rng.chance (0.15)) { J bo = mkop ("badopen") ; bo ["kind"] = k_badopen_kinds [g.rng.below (10)] ; ops.push (bo) ; }
	{ J o = mkop ("open") ; o ["mode"] = "w" ; ops.push (o) ; }
	if (g.rng.chance (0.4)) for (int k = 0, n = (int) g.rng.range (1, 3) ; k < n ; k++)
	{	J s = mkop ("setstr") ; s ["type"] = (int) g.rng.pick<int> ({ SF_STR_TITLE, SF_STR_ARTIST, SF_STR_COMMENT, SF_STR_COPYRIGHT }) ; s ["len"] = (long long) g.rng.range (1, 40) ; s ["stream"] = (long long) g.rng.below (1000) ; ops.push (s) ; }
	int nw = (int) g.rng.range (1, 4) ;
	int64_t N = 0 ;
	for (int k = 0 ; k < nw ; k++)
	{	if (g.rng.chance (0.4)) ops.push (gen_bad (g)) ;
		J w = mkop ("write") ; w ["T"] = stype_name (T) ; if (g.rng.chance (0.5)) w ["fr"] = 1 ; int64_t n = g.pick_frames (B, ch, 1500 / ch + 2) ; w ["n"] = (long long) n ; N += n ; ops.push (w) ;
		if (g.rng.chance (0.2) && f.sample_granular ()) { J s = mkop ("seek") ; s ["off"] = 0 ; s ["whence"] = 1 ; ops.push (s) ; }
	}
	if (g.rng.chance (0.5)) ops.push (gen_bad (g)) ;
	ops.push (mkop ("close")) ;
	if (g.rng.chance (0.2)) { J bo = mkop ("badopen") ; bo ["kind"] = k_badopen_kinds [g.rng.below (10)] ; ops.push (bo) ; }
	bool rw = f.sample_granular () && !f.lossy && g.rng.chance (0.25) ;
	{ J o = mkop ("open") ; o ["mode"] = rw ? "rw" : "r" ; o ["expect"] = rw ? "any" : "ok" ; ops.push (o) ; }
	int nops = (int) g.rng.range (2, 14) ;
	for (int k = 0 ; k < nops ; k++)
	{	uint64_t q = g.rng.below (100) ;
		if (q < 45) ops.push (gen_bad (g)) ;
		else if (q < 75) { J r = mkop ("read") ; r ["T"] = stype_name ((int) g.rng.below (4)) ; if (g.rng.chance (0.5)) r ["fr"] = 1 ; r ["n"] = (long long) g.pick_frames (B, ch, -1) ; ops.push (r) ; }
		else if (q < 90) { J s = mkop ("seek") ; s ["off"] = (long long) (N > 0 ? g.rng.below ((uint64_t) N + 1) : 0) ; s ["whence"] = 0 ; ops.push (s) ; }
		else { J qq = mkop ("query") ; qq ["id"] = g.rng.chance (0.5) ? "get_info" : "byterate" ; ops.push (qq) ; }
	}
	ops.push (mkop ("close")) ;
	J task = J::obj () ; task ["ops"] = ops ;
	plan ["tasks"].push (task) ;
	return plan ;
}

static Verdict check_c09 (const J &plan)
{	Verdict v ;
	Result r = execute (plan) ;
	v.absorb (r) ;
	static const std::map<std::string, std::string> owned = {
		{ "bad.ret", "ret" }, { "bad.accepted", "ret" }, { "bad.no_error", "err.set" }, { "bad.error_text", "err.text" }, { "bad.state_changed", "state.unchanged" },
		{ "bad.store_changed", "store.unchanged" }, { "success.error", "success.clears" }, { "badopen.accepted", "open.fail" }, { "badopen.no_error", "open.fail" },
		{ "read.eof_error", "success.clears" }, { "seek.fail_no_error", "err.set" }, { "seek.invalid_accepted", "ret" }, { "open.null_no_error", "open.fail" } } ;
	add_owned (v, "C09", r, owned) ;
	// a failed open must leave nothing behind: the resource audit of a plan that contains a failed open
	bool has_badopen = false ;
	for (auto &op : plan.at ("tasks") [0].at ("ops").a) if (op.gets ("op") == "badopen") has_badopen = true ;
	if (has_badopen)
	{	static const std::map<std::string, std::string> o2 = { { "audit.heap", "open.fail.leak" }, { "audit.fd", "open.fail.leak" } } ;
		add_owned (v, "C09", r, o2) ;
	}
	// message table: every error number has a non-empty text (cheap, once per plan index 0 mod 64)
	if ((plan.geti ("idx") & 63) == 0)
	{	// SFE_MAX_ERROR is not public: walk until the "Maximum error number" entry
		for (int e = 0 ; e < 400 ; e++)
		{	bool save = g_os->in_lib ; g_os->in_lib = true ;		// out-of-range numbers make the library printf
			const char *s = sf_error_number (e) ;
			g_os->in_lib = save ;
			if (!s || !*s) { Finding f ; f.sig = make_sig_raw ("C09", "err.table", "-", "-", "none", "empty") ; f.detail = "sf_error_number (" + std::to_string (e) + ") is empty" ; v.findings.push_back (f) ; break ; }
			if (strstr (s, "No error defined")) break ;
		}
		// the other two ways of getting at the message of the global error
		{	char eb [64] ; memset (eb, 0x7f, sizeof (eb)) ;
			bool save = g_os->in_lib ; g_os->in_lib = true ;
			int rc = sf_error_str (nullptr, eb, 16) ;
			g_os->in_lib = save ;
			bool nul = false ; for (int k = 0 ; k < 16 ; k++) if (eb [k] == 0) nul = true ;
			if (rc != 0 || !nul || eb [16] != 0x7f) { Finding f ; f.sig = make_sig_raw ("C09", "err.table", "-", "-", "none", "error_str") ; f.detail = "sf_error_str (NULL, buf, 16) returned " + std::to_string (rc) + ", left no NUL within 16 bytes or wrote beyond them" ; v.findings.push_back (f) ; }
		}
		v.probes ["error_table_sweeps"] ++ ;
	}
	v.fmt = plan.at ("cfg").gets ("fmt") ; v.route = plan.at ("cfg").gets ("route") ;
	v.shape = plan_shape (plan) ;
	uint64_t nb = 0 ; for (auto &kv : r.probes) if (kv.first.compare (0, 4, "bad:") == 0) nb += kv.second ;
	v.nontrivial = nb > 0 ;
	return v ;
}

// ------------------------------------------------------------------------------------------ C07

// cfg.segments: [{T, frames}] fixes the sample stream by frame ranges; cfg.schedules: [[{n, fr, upd}...]...] are partitions of it
static J gen_c07 (uint64_t seed, uint64_t idx)
{	const std::vector<Fmt> &fmts = all_formats () ;
	J plan = plan_skeleton ("C07", seed, idx) ;
	GenCtx g (sub_seed (seed, "C07", idx)) ;
	const Fmt &f = fmts [idx % fmts.size ()] ;
	int rate = g.pick_rate (f, false) ;
	int ch = g.pick_channels (f, rate) ; if (ch > 8) ch = valid_channels (f, 2, rate) ? 2 : 1 ;
	J &cfg = plan ["cfg"] ;
	cfg ["fmt"] = f.name ; cfg ["ch"] = ch ; cfg ["sr"] = rate ; cfg ["route"] = needs_path_route (f) ? "path" : "vio" ;
	DataDesc d ; d.cls = g.pick_class (f.is_float || f.is_double) ; d.k = (int) g.rng.range (1, 8) ; d.stream = (int64_t) g.rng.below (1000) ; cfg ["data"] = data_desc_to (d) ;
	int B = block_frames (f, ch, rate) ;
	int nseg = (int) g.rng.pick<int> ({ 1, 1, 1, 2, 3 }) ;
	J segs = J::arr () ; int64_t N = 0 ;
	// a single call must be able to cross the 8192-byte staging buffer several times for every item width (up to 4 x 8192 items)
	int64_t cap = is_alac (f) ? 9000 / ch : (g.rng.chance (0.3) ? 36000 : 6000) / ch + 4 ;
	for (int k = 0 ; k < nseg ; k++)
	{	J s = J::obj () ; s ["T"] = stype_name ((int) g.rng.below (4)) ;
		int64_t n = g.rng.chance (0.3) ? g.pick_frames (B, ch, cap) : g.rng.range (1, cap) ;
		s ["frames"] = (long long) n ; N += n ; segs.push (s) ;
	}
	cfg ["segments"] = segs ;
	// dither on write only acts on 8-bit encodings; it is a setting of the handle like the others, identical in every schedule
	if ((f.sub == SF_FORMAT_PCM_S8 || f.sub == SF_FORMAT_PCM_U8 || f.sub == SF_FORMAT_DPCM_8) && g.rng.chance (0.3)) cfg ["dither"] = 1 ;
	if (g.rng.chance (0.3)) { J strs = J::arr () ; J s = J::obj () ; s ["type"] = SF_STR_TITLE ; s ["len"] = (long long) g.rng.range (1, 40) ; s ["stream"] = (long long) g.rng.below (100) ; strs.push (s) ; cfg ["strings"] = strs ; }
	// schedules: partitions of every segment
	int nsched = (int) g.rng.range (2, 5) ;
	J scheds = J::arr () ;
	for (int sidx = 0 ; sidx < nsched ; sidx++)
	{	J sch = J::arr () ;
		for (int k = 0 ; k < nseg ; k++)
		{	int64_t left = segs [k].geti ("frames") ;
			while (left > 0)
			{	int64_t n ;
				if (sidx == 0) n = left ;		// schedule 0: one call per segment
				else n = std::min (left, g.pick_frames (B, ch, left)) ;
				J c = J::obj () ; c ["seg"] = k ; c ["n"] = (long long) n ; if (g.rng.chance (0.5)) c ["fr"] = 1 ;
				if (sidx > 0 && has_header (f) && g.rng.chance (0.15)) c ["upd"] = 1 ;
				sch.push (c) ; left -= n ;
			}
		}
		J so = J::obj () ; so ["calls"] = sch ;
		if (sidx == nsched - 1 && has_header (f) && g.rng.chance (0.4)) so ["auto"] = 1 ;
		scheds.push (so) ;
	}
	cfg ["schedules"] = scheds ;
	cfg ["clock_jump"] = (long long) g.rng.pick<int64_t> ({ 0, 1, -1, 86400, -86400, 2147483647LL - 1700000000LL, -1700000000LL }) ;
	return plan ;
}

static J c07_concrete (const J &plan, size_t sidx, int64_t clock)
{	const J &cfg = plan.at ("cfg") ;
	J p = J::obj () ;
	p ["profile"] = "C07" ; p ["seed"] = plan.geti ("seed") ; p ["idx"] = plan.geti ("idx") ;
	J c2 = J::obj () ;
	for (const char *k : { "fmt", "ch", "sr", "route", "data" }) if (cfg.has (k)) c2 [k] = cfg.at (k) ;
	c2 ["clock"] = (long long) clock ;
	p ["cfg"] = c2 ;
	J ops = J::arr () ;
	J o = mkop ("open") ; o ["mode"] = "w" ; ops.push (o) ;
	for (auto &s : cfg.at ("strings").a) { J so = mkop ("setstr") ; so ["type"] = s.geti ("type") ; so ["len"] = s.geti ("len") ; so ["stream"] = s.geti ("stream") ; ops.push (so) ; }
	const J &sch = cfg.at ("schedules") [sidx] ;
	if (sch.geti ("auto")) { J c = mkop ("cmd") ; c ["id"] = "auto_header" ; c ["arg"] = 1 ; ops.push (c) ; }
	if (cfg.geti ("dither", 0)) { J c = mkop ("cmd") ; c ["id"] = "dither" ; ops.push (c) ; }		// same setting in every schedule
	for (auto &c : sch.at ("calls").a)
	{	J w = mkop ("write") ; w ["T"] = cfg.at ("segments") [(size_t) c.geti ("seg")].gets ("T") ; w ["n"] = c.geti ("n") ; if (c.geti ("fr")) w ["fr"] = 1 ;
		ops.push (w) ;
		if (c.geti ("upd")) { J u = mkop ("cmd") ; u ["id"] = "update_header" ; ops.push (u) ; }
	}
	ops.push (mkop ("close")) ;
	J task = J::obj () ; task ["ops"] = ops ; J tl = J::arr () ; tl.push (task) ; p ["tasks"] = tl ;
	return p ;
}

// byte offsets that may differ when (and only when) the clock differs: PEAK timestamp fields, MAT5 header date text
static bool clock_field (const std::vector<uint8_t> &d, size_t off, const Fmt &f)
{	if (f.major == SF_FORMAT_MAT5) return off < 124 ;
	// scan for PEAK chunks: id(4) size(4) version(4) timestamp(4)
	for (size_t k = 0 ; k + 16 <= d.size () ; k++)
		if (d [k] == 'P' && d [k + 1] == 'E' && d [k + 2] == 'A' && d [k + 3] == 'K' && off >= k + 12 && off < k + 16) return true ;
	return false ;
}

static Verdict check_c07 (const J &plan)
{	Verdict v ;
	const J &cfg = plan.at ("cfg") ;
	v.fmt = cfg.gets ("fmt") ; v.route = cfg.gets ("route") ;
	v.shape = plan_shape (plan) ^ (uint64_t) cfg.at ("schedules").size () * 7919 ;
	const Fmt *f = find_format_name (v.fmt) ;
	if (!f || !cfg.at ("schedules").size ()) return v ;
	std::string store = "/sim/cwd/f0.dat" ;
	std::vector<Result> rs ;
	size_t ns = cfg.at ("schedules").size () ;
	int wrote_ok = 0 ;
	for (size_t s = 0 ; s < ns ; s++)
	{	J p = c07_concrete (plan, s, 0) ;
		note_current_plan (plan) ;
		rs.push_back (execute (p)) ;
		v.absorb (rs.back ()) ;
		bool ok = true ; for (auto &x : rs.back ().transcript [0]) if (x.api.compare (0, 5, "write") == 0 && x.ret <= 0) ok = false ;
		if (rs.back ().transcript [0].empty () || rs.back ().transcript [0][0].ret != 1) ok = false ;
		if (ok) wrote_ok ++ ;
	}
	note_current_plan (J ()) ;
	if (wrote_ok < (int) ns) { v.probes ["write_refused"] ++ ; return v ; }		// formats that cannot write this configuration are not this property's business
	for (size_t s = 1 ; s < ns ; s++)
	{	std::string where ;
		if (!stores_equal_x (rs [0].stores, rs [s].stores, store, where))
		{	Finding fd ; bool upd = false, aut = cfg.at ("schedules") [s].geti ("auto") != 0 ;
			for (auto &c : cfg.at ("schedules") [s].at ("calls").a) if (c.geti ("upd")) upd = true ;
			fd.sig = make_sig_raw ("C07", "bytes.partition", v.fmt, v.route, "none", aut ? "auto_header" : upd ? "update_header" : "split") ;
			fd.detail = "schedule " + std::to_string (s) + " vs one call per segment: " + where ;
			v.findings.push_back (fd) ; break ;
		}
	}
	// clock: the same schedule at another wall-clock value may differ only in the documented timestamp fields
	int64_t jump = cfg.geti ("clock_jump") ;
	if (v.findings.empty () && jump != 0)
	{	J p = c07_concrete (plan, 0, jump) ;
		Result rc = execute (p) ;
		v.absorb (rc) ;
		std::string where ; std::vector<size_t> diffs ;
		if (!stores_equal_x (rs [0].stores, rc.stores, store, where, &diffs))
		{	const std::vector<uint8_t> &a = rs [0].stores.at (store) ;
			bool size_ok = a.size () == rc.stores.at (store).size () ;
			size_t bad = (size_t) -1 ;
			for (size_t k : diffs) if (!clock_field (a, k, *f)) { bad = k ; break ; }
			if (!size_ok || bad != (size_t) -1)
			{	Finding fd ; fd.sig = make_sig_raw ("C07", "bytes.clock", v.fmt, v.route, "none", size_ok ? "outside_timestamp" : "size") ;
				fd.detail = "clock moved by " + std::to_string (jump) + " s: " + where + (bad != (size_t) -1 ? "; byte " + std::to_string (bad) + " is not a timestamp field" : "") ;
				v.findings.push_back (fd) ;
			}
			v.probes ["clock_visible_in_bytes"] ++ ;
		}
		v.probes ["clock_differential"] ++ ;
	}
	// "repeating the run later or in another process": the bytes may not depend on what fresh heap blocks and the unused stack held
	// when the library was called (schedule 0 once more on a different initial memory pattern)
	if (v.findings.empty ())
	{	J p = c07_concrete (plan, 0, 0) ;
		ExecOpts mo ; mo.mem_fill = 0x80 | (int) (plan.geti ("seed") & 0x3f) ;
		Result rm = execute (p, mo) ;
		v.absorb (rm) ;
		std::string where ;
		if (!stores_equal_x (rs [0].stores, rm.stores, store, where))
		{	Finding fd ; fd.sig = make_sig_raw ("C07", "bytes.memory", v.fmt, v.route, "none", "uninitialised") ;
			fd.detail = "same calls on different initial memory (heap blocks / unused stack filled with another byte): " + where ;
			v.findings.push_back (fd) ;
		}
		v.probes ["memory_differential"] ++ ;
		// ... and "in another process": the same calls in a process that has never run library code
		std::vector<uint64_t> hf, hs ;
		if (v.findings.empty () && fresh_execute (p, hf))
		{	Result rp = execute (p) ; v.absorb (rp) ; result_hashes (rp, hs) ;
			if (hf != hs)
			{	Finding fd ; fd.sig = make_sig_raw ("C07", "bytes.process", v.fmt, v.route, "none", "fresh_process") ;
				fd.detail = "the same calls give different results / file bytes in a process that never ran library code than in this process" ;
				v.findings.push_back (fd) ;
			}
			v.probes ["fresh_process_differential"] ++ ;
		}
	}
	v.nontrivial = ns >= 2 && rs [0].stores.count (store) && rs [0].stores.at (store).size () > 64 ;
	return v ;
}

// ------------------------------------------------------------------------------------------ C19

static void gen_script (GenCtx &g, J &ops, const Fmt &f, int ch, int rate, int T, const std::string &file, int maxops)
{	int B = block_frames (f, ch, rate) ;
	J o = mkop ("open") ; o ["mode"] = "w" ; o ["fmt"] = f.name ; o ["ch"] = ch ; o ["sr"] = rate ; o ["file"] = file ; o ["route"] = needs_path_route (f) ? "path" : (g.rng.chance (0.7) ? "vio" : "fd") ;
	DataDesc d ; d.cls = g.rng.chance (0.6) ? "noise" : "sine" ; d.stream = (int64_t) g.rng.below (1000) ;
	// IEEE encodings: a third of the scripts carry the values on which the host's arithmetic and the library's portable codec
	// differ (subnormals, tiny normals, signed zero), and a fifth switch the portable codec on for their own handle - a switch
	// that belongs to that handle alone (decided from the stream position, the draws of the other choices are unchanged)
	bool ieee = f.is_float || f.is_double ;
	uint64_t hx = mix3 (0xc19, (uint64_t) d.stream, (uint64_t) ch * 131 + (uint64_t) T) ;
	if (ieee && hx % 3 == 0) d.cls = "extremes" ;
	o ["data"] = data_desc_to (d) ;
	ops.push (o) ;
	if (ieee && (hx >> 8) % 5 == 0) { J c = mkop ("cmd") ; c ["id"] = "ieee_replace" ; c ["arg"] = 1 ; ops.push (c) ; }
	int nw = (int) g.rng.range (1, std::max (1, maxops / 3)) ;
	int64_t N = 0, cap = (is_alac (f) ? 5000 : 1500) / ch + 2 ;
	for (int k = 0 ; k < nw ; k++) { J w = mkop ("write") ; w ["T"] = stype_name (T) ; if (g.rng.chance (0.5)) w ["fr"] = 1 ; int64_t n = g.pick_frames (B, ch, cap) ; w ["n"] = (long long) n ; N += n ; ops.push (w) ; }
	ops.push (mkop ("close")) ;
	// a fifth of the scripts read a file that no longer is what this library writes (header fields changed): tables and parameters
	// taken from such a file belong to that handle alone; each script is still compared with itself run alone, damage included
	bool foreign = g.rng.chance (0.2) ;
	if (foreign)
	{	J c = mkop ("corrupt") ; c ["file"] = file ; J ed = J::arr () ;
		for (int k = 0, ne = (int) g.rng.range (1, 3) ; k < ne ; k++)
		{	J e = J::obj () ; e ["kind"] = g.rng.chance (0.7) ? "field" : "flip" ; e ["off"] = (long long) g.rng.below (1 << 16) ; e ["bit"] = (int) g.rng.below (8) ;
			e ["val"] = (long long) g.rng.pick<int64_t> ({ 0, 1, 2, 0x7f, 0x80, 0xff, 0x100, 0x7fff, 0x8000, 0xffff, (int64_t) g.rng.below (70000) }) ;
			e ["width"] = (int) g.rng.pick<int> ({ 1, 2, 2, 4 }) ; e ["be"] = (int) g.rng.below (2) ; e ["region"] = "head" ; ed.push (e) ;
		}
		c ["edits"] = ed ; ops.push (c) ;
	}
	J o2 = mkop ("open") ; o2 ["mode"] = "r" ; o2 ["fmt"] = f.name ; o2 ["ch"] = ch ; o2 ["sr"] = rate ; o2 ["file"] = file ; if (foreign) o2 ["expect"] = "any" ; ops.push (o2) ;
	// a quarter of the readers change one of their own conversion switches: a setting of one handle must not reach another
	if (g.rng.chance (0.25)) { J c = mkop ("cmd") ; c ["id"] = g.rng.pick<const char *> ({ "norm_float", "norm_double", "clipping" }) ; c ["arg"] = g.rng.chance (0.8) ? 0 : 1 ; ops.push (c) ; }
	if (ieee && (hx >> 16) % 5 == 0) { J c = mkop ("cmd") ; c ["id"] = "ieee_replace" ; c ["arg"] = 1 ; ops.push (c) ; }
	int nr = (int) g.rng.range (1, std::max (1, maxops / 2)) ;
	for (int k = 0 ; k < nr ; k++)
	{	if (g.rng.chance (0.25) && N > 0) { J s = mkop ("seek") ; s ["off"] = (long long) g.rng.below ((uint64_t) N + 1) ; s ["whence"] = 0 ; ops.push (s) ; }
		else if (g.rng.chance (0.1)) { J b = mkop ("bad") ; b ["kind"] = g.rng.chance (0.5) ? "write_wrong_mode" : "seek_bad_whence" ; b ["T"] = stype_name (T) ; b ["n"] = 2 ; ops.push (b) ; }
		else { J r = mkop ("read") ; r ["T"] = stype_name (g.rng.chance (0.7) ? T : (int) g.rng.below (4)) ; if (g.rng.chance (0.5)) r ["fr"] = 1 ; r ["n"] = (long long) g.pick_frames (B, ch, -1) ; ops.push (r) ; }
	}
	ops.push (mkop ("close")) ;
}

// Systematic part of C19 (thorough tier, every fourth plan): for a pair of short scripts (open-write-close-open-read-close, the same
// codec in both) ALL 924 ways of merging their 6 + 6 calls are run, one merge per plan; the pair changes every 924 enumerated plans.
static J gen_c19_merges (uint64_t seed, uint64_t idx, uint64_t e)
{	const std::vector<Fmt> &fmts = all_formats () ;
	J plan = plan_skeleton ("C19", seed, idx) ;
	uint64_t pair = e / 924, m = e % 924 ;
	GenCtx g (sub_seed (seed, "C19pair", pair)) ;
	const Fmt &f = fmts [(pair * 37) % fmts.size ()] ;
	J &cfg = plan ["cfg"] ; cfg ["fmt"] = f.name ; cfg ["route"] = "mixed" ; cfg ["all_merges"] = 1 ;
	for (int t = 0 ; t < 2 ; t++)
	{	int rate = g.pick_rate (f, false) ; int ch = g.pick_channels (f, rate) ; if (ch > 2) ch = valid_channels (f, 2, rate) ? 2 : 1 ;
		int T = (int) g.rng.below (4) ; int B = block_frames (f, ch, rate) ;
		std::string file = "t" + std::to_string (t) + ".dat" ;
		J ops = J::arr () ;
		J o = mkop ("open") ; o ["mode"] = "w" ; o ["fmt"] = f.name ; o ["ch"] = ch ; o ["sr"] = rate ; o ["file"] = file ; o ["route"] = needs_path_route (f) ? "path" : (t ? "vio" : "fd") ;
		DataDesc d ; d.cls = "noise" ; d.stream = (int64_t) g.rng.below (1000) ; o ["data"] = data_desc_to (d) ; ops.push (o) ;
		{ J w = mkop ("write") ; w ["T"] = stype_name (T) ; w ["fr"] = 1 ; w ["n"] = (long long) g.pick_frames (B, ch, (is_alac (f) ? 5000 : 1500) / ch + 2) ; ops.push (w) ; }
		ops.push (mkop ("close")) ;
		J o2 = mkop ("open") ; o2 ["mode"] = "r" ; o2 ["fmt"] = f.name ; o2 ["ch"] = ch ; o2 ["sr"] = rate ; o2 ["file"] = file ; ops.push (o2) ;
		{ J r = mkop ("read") ; r ["T"] = stype_name (T) ; r ["fr"] = 1 ; r ["n"] = (long long) g.pick_frames (B, ch, -1) ; ops.push (r) ; }
		ops.push (mkop ("close")) ;
		J task = J::obj () ; task ["ops"] = ops ; plan ["tasks"].push (task) ;
	}
	// merge number m of C(12, 6): positions of task 0's calls by the combinatorial number system
	auto C = [] (int n, int k) { if (k < 0 || k > n) return (uint64_t) 0 ; uint64_t r = 1 ; for (int i = 1 ; i <= k ; i++) r = r * (uint64_t) (n - k + i) / (uint64_t) i ; return r ; } ;
	std::vector<int> who (12, 1) ;
	{ uint64_t rest = m ; int k = 6 ; for (int pos = 11 ; pos >= 0 && k > 0 ; pos--) { uint64_t c = C (pos, k) ; if (rest >= c) { who [(size_t) pos] = 0 ; rest -= c ; k -- ; } } }
	J sched = J::arr () ; for (int w : who) sched.push ((long long) w) ;
	plan ["sched"] = sched ;
	return plan ;
}

static J gen_c19 (uint64_t seed, uint64_t idx)
{	const std::vector<Fmt> &fmts = all_formats () ;
	if (g_thorough && idx % 4 == 0) return gen_c19_merges (seed, idx, idx / 4) ;
	J plan = plan_skeleton ("C19", seed, idx) ;
	GenCtx g (sub_seed (seed, "C19", idx)) ;
	int ntasks = (int) g.rng.pick<int> ({ 2, 2, 2, 3, 3, 4, 6, 8 }) ;
	const Fmt *base = &fmts [idx % fmts.size ()] ;
	J &cfg = plan ["cfg"] ;
	cfg ["fmt"] = base->name ; cfg ["route"] = "mixed" ;
	size_t total = 0 ;
	std::vector<size_t> lens ;
	for (int t = 0 ; t < ntasks ; t++)
	{	// bias towards the same codec in several tasks: shared static state can only collide there
		const Fmt *f = base ;
		uint64_t q = g.rng.below (100) ;
		if (q >= 60)
		{	if (q < 80) { std::vector<const Fmt *> same ; for (auto &x : fmts) if (x.sub == base->sub) same.push_back (&x) ; f = g.rng.pick (same) ; }
			else f = &fmts [g.rng.below (fmts.size ())] ;
		}
		int rate = g.pick_rate (*f, false) ;
		int ch = g.pick_channels (*f, rate) ; if (ch > 4) ch = valid_channels (*f, 2, rate) ? 2 : 1 ;
		int T = (int) g.rng.below (4) ;
		J ops = J::arr () ;
		if (g.rng.chance (0.1)) { J bo = mkop ("badopen") ; bo ["kind"] = k_badopen_kinds [g.rng.below (10)] ; ops.push (bo) ; }
		gen_script (g, ops, *f, ch, rate, T, "t" + std::to_string (t) + ".dat", ntasks <= 2 ? 10 : 7) ;
		J task = J::obj () ; task ["ops"] = ops ; plan ["tasks"].push (task) ;
		lens.push_back (ops.size ()) ; total += ops.size () ;
	}
	// schedule: uniform / round-robin / bursty / one task starves
	J sched = J::arr () ;
	int pat = (int) g.rng.below (4) ;
	std::vector<size_t> left = lens ;
	size_t cur = 0, burst = 0 ;
	for (size_t k = 0 ; k < total ; k++)
	{	size_t pick = 0 ;
		std::vector<size_t> alive ; for (size_t t = 0 ; t < left.size () ; t++) if (left [t]) alive.push_back (t) ;
		if (alive.empty ()) break ;
		if (pat == 0) pick = alive [g.rng.below (alive.size ())] ;
		else if (pat == 1) { pick = alive [k % alive.size ()] ; }
		else if (pat == 2) { if (burst == 0 || !left [cur]) { cur = alive [g.rng.below (alive.size ())] ; burst = (size_t) g.rng.range (1, 5) ; } pick = cur ; burst -- ; }
		else { pick = (alive.size () > 1 && alive [0] == 0) ? alive [1 + g.rng.below (alive.size () - 1)] : alive [g.rng.below (alive.size ())] ; }
		sched.push ((long long) pick) ; left [pick] -- ;
	}
	plan ["sched"] = sched ;
	return plan ;
}

static Verdict check_c19 (const J &plan)
{	Verdict v ;
	v.fmt = plan.at ("cfg").gets ("fmt") ; v.route = "mixed" ;
	v.shape = plan_shape (plan) ^ (uint64_t) plan.at ("sched").size () * 104729 ;
	for (auto &x : plan.at ("sched").a) v.shape = (v.shape ^ (uint64_t) x.num ()) * 1099511628211ULL ;
	note_current_plan (plan) ;
	Result r = execute (plan) ;
	v.absorb (r) ;
	static const std::map<std::string, std::string> owned = { { "error.isolated", "error.isolated" } } ;
	add_owned (v, "C19", r, owned) ;
	size_t nt = plan.at ("tasks").size () ;
	int alternations = 0 ; int64_t last = -1 ;
	for (auto &x : plan.at ("sched").a) { if (last >= 0 && x.num () != last) alternations ++ ; last = x.num () ; }
	for (size_t t = 0 ; t < nt && v.findings.empty () ; t++)
	{	J solo = plan ; solo.erase ("sched") ;
		J tl = J::arr () ; tl.push (plan.at ("tasks") [t]) ; solo ["tasks"] = tl ;
		Result s = execute (solo) ;
		v.absorb (s) ;
		std::string where ;
		std::string tfmt = "-" ; for (auto &op : plan.at ("tasks") [t].at ("ops").a) if (op.has ("fmt")) { tfmt = op.gets ("fmt") ; break ; }
		if (!transcripts_equal_t (r.transcript [t], s.transcript [0], where))
		{	Finding fd ; fd.sig = make_sig_raw ("C19", "transcript", tfmt, "mixed", "none", "-") ; fd.detail = "task " + std::to_string (t) + " interleaved vs alone: " + where ; fd.task = (int) t ; v.findings.push_back (fd) ; break ; }
		std::string store = "/sim/cwd/t" + std::to_string (t) + ".dat" ;
		if (s.stores.count (store) && !stores_equal_x (r.stores, s.stores, store, where))
		{	Finding fd ; fd.sig = make_sig_raw ("C19", "store", tfmt, "mixed", "none", "-") ; fd.detail = "task " + std::to_string (t) + " interleaved vs alone: " + where ; fd.task = (int) t ; v.findings.push_back (fd) ; break ; }
	}
	// "independent of what the library did earlier in the same process": the first script alone once more, now after everything
	// above has run in this process, must reproduce its first solo run (transcript with data hashes, and file bytes)
	if (v.findings.empty () && nt >= 1)
	{	J solo = plan ; solo.erase ("sched") ;
		size_t t = (size_t) (plan.geti ("idx") % (long long) nt) ;
		J tl = J::arr () ; tl.push (plan.at ("tasks") [t]) ; solo ["tasks"] = tl ;
		ExecOpts m1 ; m1.mem_fill = 0x41 ; ExecOpts m2 ; m2.mem_fill = 0x9c ;		// and on different initial memory (heap blocks, unused stack)
		Result s1 = execute (solo, m1) ; Result s2 = execute (solo, m2) ;
		v.absorb (s2) ;
		std::string where, tfmt = "-" ; for (auto &op : plan.at ("tasks") [t].at ("ops").a) if (op.has ("fmt")) { tfmt = op.gets ("fmt") ; break ; }
		std::string store = "/sim/cwd/t" + std::to_string (t) + ".dat" ;
		if (!transcripts_equal_t (s1.transcript [0], s2.transcript [0], where) || (s1.stores.count (store) && !stores_equal_x (s1.stores, s2.stores, store, where)))
		{	Finding fd ; fd.sig = make_sig_raw ("C19", "history", tfmt, "mixed", "none", "-") ; fd.detail = "task " + std::to_string (t) + " alone, run twice in the same process: " + where ; fd.task = (int) t ; v.findings.push_back (fd) ; }
		v.probes ["solo_repeated_in_process"] ++ ;
		// ... and must equal the same script in a process that has never run library code (statics in their initial state)
		std::vector<uint64_t> hf, hs ;
		if (v.findings.empty () && fresh_execute (solo, hf))
		{	ExecOpts dflt ; Result s3 = execute (solo, dflt) ; v.absorb (s3) ;
			result_hashes (s3, hs) ;
			if (hf != hs)
			{	Finding fd ; fd.sig = make_sig_raw ("C19", "fresh_process", tfmt, "mixed", "none", hf.size () == hs.size () && !hf.empty () && hf [0] != hs [0] ? "results" : "bytes") ;
				fd.detail = "task " + std::to_string (t) + " alone in this process (after the runs above) differs from the same script in a process that never ran library code" ; fd.task = (int) t ; v.findings.push_back (fd) ; }
			v.probes ["solo_vs_fresh_process"] ++ ;
		}
	}
	note_current_plan (J ()) ;
	v.nontrivial = nt >= 2 && alternations >= 2 ;
	v.probes ["schedule_alternations"] += (uint64_t) alternations ;
	if (plan.at ("cfg").geti ("all_merges", 0)) { v.probes ["systematic_merges"] ++ ; v.nontrivial = true ; }
	return v ;
}

// ------------------------------------------------------------------------------------------ C14

static J gen_c14 (uint64_t seed, uint64_t idx)
{	const std::vector<Fmt> &fmts = all_formats () ;
	J plan = plan_skeleton ("C14", seed, idx) ;
	GenCtx g (sub_seed (seed, "C14", idx)) ;
	const Fmt &f = fmts [idx % fmts.size ()] ;
	int rate = g.pick_rate (f, false) ;
	int ch = g.pick_channels (f, rate) ; if (ch > 8) ch = valid_channels (f, 2, rate) ? 2 : 1 ;
	J &cfg = plan ["cfg"] ;
	cfg ["fmt"] = f.name ; cfg ["ch"] = ch ; cfg ["sr"] = rate ; cfg ["route"] = "all" ;
	int T = (int) g.rng.below (4) ; cfg ["T"] = stype_name (T) ;
	DataDesc d ; d.cls = g.rng.chance (0.6) ? "noise" : "sine" ; d.stream = (int64_t) g.rng.below (1000) ; cfg ["data"] = data_desc_to (d) ;
	cfg ["emb_k"] = (long long) g.rng.pick<int64_t> ({ 1, 2, 7, 123, 4096, 5000 }) ; cfg ["emb_t"] = (long long) g.rng.pick<int64_t> ({ 0, 1, 17, 4096 }) ;
	if (g.rng.chance (0.15)) cfg ["fd0"] = 1 ;		// as if stdin were closed: the first descriptor handed out is number 0
	cfg ["emb_wt"] = (long long) g.rng.pick<int64_t> ({ 0, 0, 1, 64, 20000 }) ;		// bytes already behind the descriptor position of an embedded write
	{ J c = J::arr () ; for (int k = 0, n = (int) g.rng.range (1, 3) ; k < n ; k++) c.push ((long long) g.rng.pick<int64_t> ({ 1, 2, 3, 7, 4095, 4096, 4097, 0 })) ; cfg ["fifo_chunks"] = c ; }
	int B = block_frames (f, ch, rate) ;
	J wops = J::arr () ;
	{ J o = mkop ("open") ; o ["mode"] = "w" ; wops.push (o) ; }
	if (g.rng.chance (0.3)) { J s = mkop ("setstr") ; s ["type"] = SF_STR_TITLE ; s ["len"] = (long long) g.rng.range (1, 30) ; s ["stream"] = 5 ; wops.push (s) ; }
	int64_t N = 0, cap = (is_alac (f) ? 5000 : 3000) / ch + 2 ;
	for (int k = 0, nw = (int) g.rng.range (1, 4) ; k < nw ; k++) { J w = mkop ("write") ; w ["T"] = stype_name (T) ; if (g.rng.chance (0.5)) w ["fr"] = 1 ; int64_t n = g.pick_frames (B, ch, cap) ; w ["n"] = (long long) n ; N += n ; wops.push (w) ; }
	// a string set after the audio ends up in a chunk behind the data (WAV LIST, AIFF, CAF info): the routes must agree on it as well
	bool late_str = g.rng.chance (0.3) ;
	if (late_str) { J s = mkop ("setstr") ; s ["type"] = SF_STR_COMMENT ; s ["len"] = (long long) g.rng.range (1, 40) ; s ["stream"] = 6 ; wops.push (s) ; }
	wops.push (mkop ("close")) ;
	if (f.major == SF_FORMAT_AU)
	{	// half of the AU files get an annotation field behind the fixed header (the data offset moves): every route has to skip it
		GenCtx gx (sub_seed (seed, "C14x", idx)) ;
		if (gx.rng.chance (0.5))
		{	J c = mkop ("corrupt") ; J ed = J::arr () ; J e = J::obj () ; e ["kind"] = "au_annotation" ; e ["len"] = (long long) gx.rng.pick<int64_t> ({ 1, 8, 46, 1000, 5000 }) ; ed.push (e) ;
			c ["edits"] = ed ; wops.push (c) ;
		}
	}
	cfg ["wops"] = wops ;
	J rops = J::arr () ;
	{ J o = mkop ("open") ; o ["mode"] = "r" ; o ["expect"] = "any" ; rops.push (o) ; }
	if (late_str || g.rng.chance (0.3)) rops.push (mkop ("getstr")) ;
	for (int k = 0, nr = (int) g.rng.range (1, 8) ; k < nr ; k++)
	{	if (g.rng.chance (0.3) && N > 0) { J s = mkop ("seek") ; s ["off"] = (long long) g.rng.below ((uint64_t) N + 1) ; s ["whence"] = 0 ; rops.push (s) ; }
		else { J r = mkop ("read") ; r ["T"] = stype_name (g.rng.chance (0.7) ? T : (int) g.rng.below (4)) ; if (g.rng.chance (0.5)) r ["fr"] = 1 ; r ["n"] = (long long) g.pick_frames (B, ch, -1) ; rops.push (r) ; }
	}
	rops.push (mkop ("close")) ;
	cfg ["rops"] = rops ;
	return plan ;
}

static J c14_concrete (const J &plan, const std::string &wroute, const std::string &rroute, bool seq_only)
{	const J &cfg = plan.at ("cfg") ;
	J p = J::obj () ; p ["profile"] = "C14" ; p ["seed"] = plan.geti ("seed") ; p ["idx"] = plan.geti ("idx") ;
	J c2 = J::obj () ; for (const char *k : { "fmt", "ch", "sr", "data", "T", "fd0" }) if (cfg.has (k)) c2 [k] = cfg.at (k) ;
	c2 ["route"] = rroute ; p ["cfg"] = c2 ;
	J ops = J::arr () ;
	for (auto op : cfg.at ("wops").a)
	{	if (op.gets ("op") == "open") { op ["route"] = wroute ; if (wroute == "embed") { op ["emb_k"] = cfg.geti ("emb_k") ; op ["emb_wt"] = cfg.geti ("emb_wt", 0) ; op ["expect"] = "any" ; } }
		ops.push (op) ;
	}
	for (auto op : cfg.at ("rops").a)
	{	if (op.gets ("op") == "open")
		{	op ["route"] = rroute ;
			if (rroute == "embed") { op ["emb_k"] = cfg.geti ("emb_k") ; op ["emb_t"] = cfg.geti ("emb_t") ; }
			if (rroute == "fifo") op ["chunks"] = cfg.at ("fifo_chunks") ;
		}
		if (seq_only && (op.gets ("op") == "seek" || op.gets ("op") == "query")) continue ;
		ops.push (op) ;
	}
	J task = J::obj () ; task ["ops"] = ops ; J tl = J::arr () ; tl.push (task) ; p ["tasks"] = tl ;
	return p ;
}

// remove what legitimately differs between routes: the SVX NAME chunk (and the FORM size that contains it), the MPC2K name
static std::vector<uint8_t> strip_name (const std::vector<uint8_t> &d, const Fmt &f)
{	std::vector<uint8_t> o = d ;
	if (f.major == SF_FORMAT_MPC2K) { for (size_t k = 2 ; k < 19 && k < o.size () ; k++) o [k] = 0 ; return o ; }
	if (f.major == SF_FORMAT_SVX)
	{	for (size_t k = 12 ; k + 8 <= o.size () && k < 400 ; k++)
			if (o [k] == 'N' && o [k + 1] == 'A' && o [k + 2] == 'M' && o [k + 3] == 'E')
			{	size_t len = ((size_t) o [k + 4] << 24) | ((size_t) o [k + 5] << 16) | ((size_t) o [k + 6] << 8) | o [k + 7] ;
				size_t end = std::min (o.size (), k + 8 + len + (len & 1)) ;
				o.erase (o.begin () + k, o.begin () + end) ;
				break ;
			}
		for (size_t k = 4 ; k < 8 && k < o.size () ; k++) o [k] = 0 ;
	}
	return o ;
}
static bool name_field (const std::vector<uint8_t> &d, size_t off, const Fmt &f)
{	if (f.major == SF_FORMAT_MPC2K) return off >= 2 && off < 19 ;
	if (f.major == SF_FORMAT_SVX)
		for (size_t k = 0 ; k + 8 <= d.size () && k < 200 ; k++)
			if (d [k] == 'N' && d [k + 1] == 'A' && d [k + 2] == 'M' && d [k + 3] == 'E')
			{	size_t len = ((size_t) d [k + 4] << 24) | ((size_t) d [k + 5] << 16) | ((size_t) d [k + 6] << 8) | d [k + 7] ;
				if (off >= k + 8 && off < k + 8 + len + (len & 1)) return true ;
			}
	return false ;
}

static Verdict check_c14 (const J &plan)
{	Verdict v ;
	const J &cfg = plan.at ("cfg") ;
	v.fmt = cfg.gets ("fmt") ; v.route = "all" ;
	v.shape = plan_shape (plan) ;
	{	std::string s ; for (auto &op : cfg.at ("wops").a) s += op.gets ("op") + std::to_string (op.geti ("n") > 100) ; for (auto &op : cfg.at ("rops").a) s += op.gets ("op") + op.gets ("T") ; v.shape ^= fnv1a (s.data (), s.size ()) ; }
	const Fmt *f = find_format_name (v.fmt) ;
	if (!f) return v ;
	static const std::map<std::string, std::string> owned = {
		{ "fd.not_closed", "fd.ownership" }, { "fd.closed_unowned", "fd.ownership" }, { "fd.double_close", "fd.ownership" }, { "audit.other", "fd.ownership" },
		{ "embed.prefix_touched", "write.bytes" } } ;
	std::vector<std::string> routes = needs_path_route (*f) ? std::vector<std::string> { "path" } : std::vector<std::string> { "path", "fd", "fdnc", "vio", "stdio" } ;
	std::vector<Result> rs ;
	int completed = 0 ;
	for (auto &rt : routes)
	{	J p = c14_concrete (plan, rt, rt, false) ;
		note_current_plan (p) ;
		rs.push_back (execute (p)) ;
		v.absorb (rs.back ()) ;
		size_t before = v.findings.size () ;
		add_owned (v, "C14", rs.back (), owned) ;
		completed ++ ;
	}
	std::string store = "/sim/cwd/f0.dat" ;
	for (size_t k = 1 ; k < rs.size () && v.findings.empty () ; k++)
	{	std::string where ;
		if (!transcripts_equal_t (rs [0].transcript [0], rs [k].transcript [0], where))
		{	Finding fd ; fd.sig = make_sig_raw ("C14", "read.transcript", v.fmt, routes [k], "none", "vs_path") ; fd.detail = routes [k] + " vs path: " + where ; v.findings.push_back (fd) ; break ; }
		std::vector<size_t> diffs ;
		bool named = f->major == SF_FORMAT_SVX || f->major == SF_FORMAT_MPC2K ;
		if (named && rs [0].stores.count (store) && rs [k].stores.count (store))
		{	if (strip_name (rs [0].stores.at (store), *f) != strip_name (rs [k].stores.at (store), *f))
			{	Finding fd ; fd.sig = make_sig_raw ("C14", "write.bytes", v.fmt, routes [k], "none", "vs_path") ; fd.detail = "written via " + routes [k] + " vs path: bytes differ outside the file-name field" ; v.findings.push_back (fd) ; break ; }
			v.probes ["name_field_masked"] ++ ;
		}
		else if (!stores_equal_x (rs [0].stores, rs [k].stores, store, where, &diffs))
		{	const auto &a = rs [0].stores.at (store) ;
			bool same_size = rs [k].stores.count (store) && a.size () == rs [k].stores.at (store).size () ;
			size_t bad = (size_t) -1 ; for (size_t o : diffs) if (!name_field (a, o, *f)) { bad = o ; break ; }
			if (!same_size || bad != (size_t) -1)
			{	Finding fd ; fd.sig = make_sig_raw ("C14", "write.bytes", v.fmt, routes [k], "none", "vs_path") ; fd.detail = "written via " + routes [k] + " vs path: " + where ; v.findings.push_back (fd) ; break ; }
			v.probes ["name_field_masked"] ++ ;
		}
	}
	if (v.findings.empty () && !needs_path_route (*f))
	{	// embedded: read at offset k inside junk || sound || junk; write appended after existing bytes
		bool emb = embed_capable (*f) ;
		J pe = c14_concrete (plan, "vio", "embed", false) ;
		note_current_plan (pe) ;
		Result re = execute (pe) ;
		v.absorb (re) ;
		size_t before = v.findings.size () ;
		add_owned (v, "C14", re, owned) ;
		// locate the read-phase open in both transcripts
		const std::vector<Rec> &tv = rs.back ().transcript [0], &te = re.transcript [0] ;
		size_t wn = cfg.at ("wops").size () ;
		bool opened = te.size () > wn && te [wn].ret == 1 ;
		bool base_opened = tv.size () > wn && tv [wn].ret == 1 ;
		if (v.findings.empty () && base_opened)
		{	if (emb)
			{	std::string where ;
				// get_embed legitimately differs; compare everything else
				std::vector<Rec> a, b ;
				for (auto &x : tv) if (x.api != "query:get_embed") a.push_back (x) ;
				for (auto &x : te) if (x.api != "query:get_embed") b.push_back (x) ;
				size_t flen = rs.back ().stores.count (store) ? (size_t) cfg.geti ("emb_k") + rs.back ().stores.at (store).size () + (size_t) cfg.geti ("emb_t") : 0 ;		// the whole container
				if (!opened) { Finding fd ; fd.sig = make_sig_raw ("C14", "embed.refused", v.fmt, "embed", "none", flen < 44 ? "container_shorter_than_44_bytes" : "-") ; fd.detail = "container that supports embedding refused an embedded open" ; v.findings.push_back (fd) ; }
				else if (!transcripts_equal_t (a, b, where)) { Finding fd ; fd.sig = make_sig_raw ("C14", "read.transcript", v.fmt, "embed", "none", "vs_vio") ; fd.detail = "embedded at offset " + std::to_string (cfg.geti ("emb_k")) + " vs plain: " + where ; v.findings.push_back (fd) ; }
				v.probes ["embed_read_compared"] ++ ;
			}
			else if (opened && f->major != SF_FORMAT_RAW)
			{	// not on the documented list: either refuse, or - if accepted - behave identically
				std::string where ;
				std::vector<Rec> a, b ;
				for (auto &x : tv) if (x.api != "query:get_embed") a.push_back (x) ;
				for (auto &x : te) if (x.api != "query:get_embed") b.push_back (x) ;
				if (!transcripts_equal_t (a, b, where)) { Finding fd ; fd.sig = make_sig_raw ("C14", "embed.accepted_differs", v.fmt, "embed", "none", "-") ; fd.detail = "embedded open accepted for a container without embedding support and results differ: " + where ; v.findings.push_back (fd) ; }
			}
		}
		completed ++ ;
		// embedded read/write: refused by the library (or, if a container ever accepts it, the bytes in front of the sound stay as they are)
		if (v.findings.empty () && base_opened)
		{	J prw = c14_concrete (plan, "vio", "embed", false) ;
			bool first = true ;
			for (auto &op : prw ["tasks"][0]["ops"].a) if (op.gets ("op") == "open" && op.gets ("mode") == "r" && first) { op ["mode"] = "rw" ; op ["expect"] = "any" ; first = false ; }
			note_current_plan (prw) ;
			Result rr = execute (prw) ;
			v.absorb (rr) ;
			add_owned (v, "C14", rr, owned) ;
			v.probes ["embed_rdwr_attempted"] ++ ;
		}
		// embedded write (documented containers only)
		if (v.findings.empty () && emb && base_opened)
		{	J pw = c14_concrete (plan, "embed", "vio", false) ;
			note_current_plan (pw) ;
			Result rw = execute (pw) ;
			v.absorb (rw) ;
			before = v.findings.size () ;
			add_owned (v, "C14", rw, owned) ;
				std::string where ;
			if (v.findings.empty () && rw.transcript [0].size () && rw.transcript [0][0].ret == 1 && !transcripts_equal_t (rs.back ().transcript [0], rw.transcript [0], where))
			{	Finding fd ; fd.sig = make_sig_raw ("C14", "read.transcript", v.fmt, "embed_write", "none", "vs_vio") ; fd.detail = "file written embedded at offset " + std::to_string (cfg.geti ("emb_k")) + " reads differently: " + where ; v.findings.push_back (fd) ; }
			v.probes ["embed_write_compared"] ++ ;
			completed ++ ;
		}
		// pipe: WAV / AIFF / AU with sample-granular encodings deliver the same samples sequentially
		bool pipe_ok = (f->major == SF_FORMAT_WAV || f->major == SF_FORMAT_AIFF || f->major == SF_FORMAT_AU) && f->sample_granular () && !is_dwvw (*f) ;
		if (v.findings.empty () && pipe_ok && base_opened)
		{	J pv = c14_concrete (plan, "vio", "vio", true) ;
			J pf = c14_concrete (plan, "vio", "fifo", true) ;
			Result rv = execute (pv) ;
			note_current_plan (pf) ;
			Result rf = execute (pf) ;
			v.absorb (rv) ; v.absorb (rf) ;
			before = v.findings.size () ;
			add_owned (v, "C14", rf, owned) ;
				std::string where ;
			// only read calls are compared (a pipe has no length, so header derived values such as get_string of a tail chunk may differ)
			std::vector<Rec> a, b ;
			for (auto &x : rv.transcript [0]) if (x.api.compare (0, 4, "read") == 0 || x.api.compare (0, 5, "open:") == 0) a.push_back (x) ;
			for (auto &x : rf.transcript [0]) if (x.api.compare (0, 4, "read") == 0 || x.api.compare (0, 5, "open:") == 0) b.push_back (x) ;
			for (auto &x : a) if (x.api.compare (0, 5, "open:") == 0) x.dh = 0 ;
			for (auto &x : b) if (x.api.compare (0, 5, "open:") == 0) x.dh = 0 ;
			if (v.findings.empty () && !transcripts_equal_t (a, b, where))
			{	Finding fd ; fd.sig = make_sig_raw ("C14", "pipe.samples", v.fmt, "fifo", "none", "-") ; fd.detail = "non-seekable pipe vs virtual I/O: " + where ; v.findings.push_back (fd) ; }
			v.probes ["pipe_compared"] ++ ;
			completed ++ ;
		}
	}
	note_current_plan (J ()) ;
	v.nontrivial = completed >= 3 ;
	return v ;
}

// ------------------------------------------------------------------------------------------

extern const Profile k_prof_c08 = { "C08", gen_c08, check_c08, ">= 1 read->write and >= 1 write->read switch inside a read/write session and >= 1 seek with SFM_READ or SFM_WRITE" } ;
extern const Profile k_prof_c09 = { "C09", gen_c09, check_c09, ">= 1 injected invalid call reached the library on an open handle" } ;
extern const Profile k_prof_c07 = { "C07", gen_c07, check_c07, ">= 2 schedules with different call boundaries produced a store larger than 64 bytes" } ;
extern const Profile k_prof_c19 = { "C19", gen_c19, check_c19, ">= 2 tasks and the schedule alternated between tasks >= 2 times" } ;
extern const Profile k_prof_c14 = { "C14", gen_c14, check_c14, ">= 3 transports completed the plan" } ;
