// Format table: domain taken from the library's own enumeration, model facts written from the
// format definitions (design/format-model.md) — never from the code paths under test.
#pragma once
#include <string>
#include <vector>
#include <cstdint>
#include <sndfile.h>

enum SType { T_SHORT = 0, T_INT, T_FLOAT, T_DOUBLE, T_RAW } ;
static inline const char *stype_name (int t) { static const char *n [] = { "short", "int", "float", "double", "raw" } ; return n [t] ; }
static inline int stype_size (int t) { return t == T_SHORT ? 2 : t == T_INT ? 4 : t == T_FLOAT ? 4 : t == T_DOUBLE ? 8 : 1 ; }
int stype_from (const std::string &s) ;

struct Fmt
{	int format = 0 ;				// major | subtype | endian
	int major = 0, sub = 0, endian = 0 ;
	std::string mname, sname, ename, name ;
	int bits = 0 ;					// stored integer width for lossless integer encodings, else 0
	bool is_float = false, is_double = false ;
	bool lossy = false ;
	bool block_codec = false ;		// frame count granular in blocks
	int max_ch = 1 ;
	bool sample_granular () const { return !block_codec ; }
} ;

const std::vector<Fmt> &all_formats () ;		// every (major, subtype, endian) accepted by sf_format_check for 1 channel (or 2)
const Fmt *find_format (int format) ;
const Fmt *find_format_name (const std::string &name) ;
std::string major_name (int major) ;
std::string sub_name (int sub) ;

// low zero bits required for values of API type T to survive exactly; -1 = not lossless for T
int lossless_lowzero (const Fmt &f, int T) ;
// codec block length in frames (1 for sample granular)
int block_frames (const Fmt &f, int ch, int rate) ;
// container stores the frame count itself -> F == N exactly even for block codecs
bool container_counts_frames (const Fmt &f) ;
// one pad frame tolerated (1 byte per sample, odd N*ch, IFF-style container)
bool pad_frame_possible (const Fmt &f, int ch, int64_t N) ;
// sample rate the container's field can hold for the requested rate; returns -1 if the model does not cover the rate
int64_t rate_model (const Fmt &f, int64_t rate, int ch) ;
bool has_header (const Fmt &f) ;				// container has a rewritable header (RAW, and header-less codecs have none)
bool peak_capable (const Fmt &f) ;
bool chunk_capable (const Fmt &f) ;
bool embed_capable (const Fmt &f) ;
bool needs_path_route (const Fmt &f) ;		// SD2
bool valid_channels (const Fmt &f, int ch, int rate) ;
