#!/usr/bin/python3
# gen_layouts.py <repo>/src/chanmap.c <out.inc>: the channel layouts the library knows (arrays of SF_CHANNEL_MAP_* codes), as a
# catalogue of inputs for the C12 channel-map round trip. Only the maps are taken; the oracle stays "what was set reads back".
import re, sys
src = open(sys.argv[1]).read()
out = []
for m in re.finditer(r'static const int\s+(\w+)\s*\[(\d+)\]\s*=\s*\{([^}]*)\}', src):
    codes = [c.strip() for c in m.group(3).split(',') if c.strip()]
    if codes and all(c.startswith('SF_CHANNEL_MAP_') for c in codes) and len(codes) == int(m.group(2)):
        out.append('\t{ %d, { %s } },\t// %s' % (len(codes), ', '.join(codes), m.group(1)))
open(sys.argv[2], 'w').write('// generated from chanmap.c by tools/gen_layouts.py\n' + '\n'.join(out) + '\n')
print(len(out), 'layouts')
