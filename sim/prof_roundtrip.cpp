// Profiles C01 (lossless round trip), C04 (closed file describes what was written),
// C05 (read/write count, bounds, position contract), C06 (partition and seek consistency).
#include "profiles.hpp"
#include <algorithm>

static J mkop (const char *op) { J j = J::obj () ; j ["op"] = op ; return j ; }

static std::vector<const Fmt *> lossless_formats ()
{	std::vector<const Fmt *> v ;
	for (auto &f : all_formats ())
		for (int T = 0 ; T < 4 ; T++) if (lossless_lowzero (f, T) >= 0) { v.push_back (&f) ; break ; }
	return v ;
}

static int64_t frame_cap (const Fmt &f, int ch)
{	int64_t cap = 40000 / ch ;
	if (cap > 20000) cap = 20000 ;
	if (f.sub >= SF_FORMAT_ALAC_16 && f.sub <= SF_FORMAT_ALAC_32) cap = std::min<int64_t> (cap, 17000) ;		// five packets of 4096 frames: boundaries that are not the last packet
	if (cap < 4) cap = 4 ;
	return cap ;
}

// writer phase: open w, optional switches, 0..12 writes, close. Returns N (frames requested in total).
static int64_t gen_writer (GenCtx &g, J &ops, const Fmt &f, int ch, int rate, const std::string &route, bool mixed_types, int fixedT, bool allow_updates, int64_t frames_field)
{	J o = mkop ("open") ; o ["mode"] = "w" ;
	if (frames_field) o ["frames"] = (long long) frames_field ;
	ops.push (o) ;
	(void) route ;
	if ((f.is_float || f.is_double) && g.rng.chance (0.1)) { J c = mkop ("cmd") ; c ["id"] = "peak_chunk" ; c ["arg"] = 0 ; ops.push (c) ; }
	if (allow_updates && has_header (f) && g.rng.chance (0.15)) { J c = mkop ("cmd") ; c ["id"] = "auto_header" ; c ["arg"] = 1 ; ops.push (c) ; }
	int B = block_frames (f, ch, rate) ;
	int64_t cap = frame_cap (f, ch), N = 0 ;
	int nw ;
	uint64_t r = g.rng.below (100) ;
	if (r < 5) nw = 0 ; else if (r < 35) nw = 1 ; else if (r < 70) nw = (int) g.rng.range (2, 4) ; else nw = (int) g.rng.range (5, 12) ;
	for (int k = 0 ; k < nw && N < cap ; k++)
	{	J w = mkop ("write") ;
		int T = mixed_types ? (int) g.rng.below (4) : fixedT ;
		w ["T"] = stype_name (T) ;
		if (g.rng.chance (0.5)) w ["fr"] = 1 ;
		int64_t n = g.pick_frames (B, ch, cap - N) ;
		// ALAC: half of the files span more than two packets of 4096 frames
		if (k == 0 && f.sub >= SF_FORMAT_ALAC_16 && f.sub <= SF_FORMAT_ALAC_32 && g.rng.chance (0.5)) n = std::min<int64_t> (cap, 8192 + n) ;
		w ["n"] = (long long) n ;
		N += n ;
		ops.push (w) ;
		if (allow_updates && has_header (f) && g.rng.chance (0.08)) { J c = mkop ("cmd") ; c ["id"] = "update_header" ; ops.push (c) ; }
	}
	ops.push (mkop ("close")) ;
	return N ;
}

static void base_cfg (J &plan, const Fmt &f, int ch, int rate, const std::string &route, GenCtx &g)
{	J &cfg = plan ["cfg"] ;
	cfg ["fmt"] = f.name ; cfg ["ch"] = ch ; cfg ["sr"] = rate ; cfg ["route"] = route ;
	DataDesc d ; d.cls = g.pick_class (f.is_float || f.is_double) ; d.k = (int) g.rng.range (1, 12) ; d.stream = (int64_t) g.rng.below (1000) ;
	cfg ["data"] = data_desc_to (d) ;
	if ((route == "fd" || route == "fdnc" || route == "path") && g.rng.chance (0.5)) gen_benign_io (g, plan) ;
}

// Clipping switch (SFC_SET_CLIPPING) on conversions between float/double callers and integer encodings: for samples inside the
// representable range it must not change anything, so it may be switched on wherever the data class stays inside [-1, 1) and
// the value model or the sequential reference decides. Inserts the command right after the open at ops [at].
static void maybe_clipping (GenCtx &g, J &plan, J &ops, size_t at, int T)
{	std::string cls = plan.at ("cfg").at ("data").gets ("class") ;
	// (integer callers of IEEE encodings as well: with the default scaling the values pass through unscaled and every short / int is
	// inside the range the clipping variant saturates at)
	const Fmt *ff = find_format_name (plan.at ("cfg").gets ("fmt")) ;
	bool int_via_ieee = ff && (ff->is_float || ff->is_double) && (T == T_SHORT || T == T_INT) ;
	if (!(T == T_FLOAT || T == T_DOUBLE || int_via_ieee) || !(int_via_ieee || cls == "noise" || cls == "sine" || cls == "ramp") || !g.rng.chance (0.2)) return ;
	J c = mkop ("cmd") ; c ["id"] = "clipping" ; c ["arg"] = 1 ;
	if (at + 1 <= ops.a.size ()) ops.a.insert (ops.a.begin () + (long) (at + 1), c) ;
}

// ------------------------------------------------------------------------------------------ C01

static J gen_c01 (uint64_t seed, uint64_t idx)
{	static std::vector<const Fmt *> fmts = lossless_formats () ;
	J plan = plan_skeleton ("C01", seed, idx) ;
	GenCtx g (sub_seed (seed, "C01", idx)) ;
	const Fmt &f = *fmts [idx % fmts.size ()] ;
	std::vector<int> Ts ; for (int T = 0 ; T < 4 ; T++) if (lossless_lowzero (f, T) >= 0) Ts.push_back (T) ;
	int T = g.rng.pick (Ts) ;
	int rate = g.pick_rate (f, false) ;
	int ch = g.pick_channels (f, rate) ;
	std::string route = g.pick_route (f, true) ;
	base_cfg (plan, f, ch, rate, route, g) ;
	plan ["cfg"]["T"] = stype_name (T) ;
	plan ["cfg"]["model"] = stype_name (T) ;
	J ops = J::arr () ;
	int64_t N = gen_writer (g, ops, f, ch, rate, route, false, T, true, 0) ;
	maybe_clipping (g, plan, ops, 0, T) ;
	J o = mkop ("open") ; o ["mode"] = "r" ; ops.push (o) ;
	maybe_clipping (g, plan, ops, ops.size () - 1, T) ;
	if (f.is_float || f.is_double)
	{	// the portable (bit twiddling) IEEE encoder / decoder the library keeps for hosts without IEEE arithmetic, switched on with
		// SFC_TEST_IEEE_FLOAT_REPLACE on the writing handle, the reading handle or both: the stored bytes and the values read back
		// must be the same as with the host's own arithmetic (own stream: the other plans stay what they were)
		GenCtx gx (sub_seed (seed, "C01x", idx)) ;
		uint64_t q = gx.rng.below (100) ;
		size_t ropen = ops.size () - 1 ; while (ropen > 0 && ops [ropen].gets ("op") != "open") ropen -- ;
		J c = mkop ("cmd") ; c ["id"] = "ieee_replace" ; c ["arg"] = 1 ;
		if (q < 20 || (q >= 30 && q < 40)) ops.a.insert (ops.a.begin () + (long) (ropen + 1), c) ;
		if (q >= 20 && q < 40) ops.a.insert (ops.a.begin () + 1, c) ;
	}
	int nr = (int) g.rng.range (1, 5) ;
	int64_t left = N + 3 ;
	for (int k = 0 ; k < nr && left > 0 ; k++)
	{	J rd = mkop ("read") ; rd ["T"] = stype_name (T) ; if (g.rng.chance (0.5)) rd ["fr"] = 1 ;
		int64_t n = k == nr - 1 ? left : g.rng.range (1, left) ;
		rd ["n"] = (long long) n ; left -= n ;
		ops.push (rd) ;
	}
	ops.push (mkop ("close")) ;
	J task = J::obj () ; task ["ops"] = ops ;
	plan ["tasks"].push (task) ;
	return plan ;
}

static Verdict check_c01 (const J &plan)
{	Verdict v ;
	Result r = execute (plan) ;
	v.absorb (r) ;
	static const std::map<std::string, std::string> owned = {
		{ "data.model", "data.diff" }, { "open.fail#read", "reopen.fail" }, { "frames.range#F<N", "frames.lt_written" },
		{ "read.short_not_eof", "data.undelivered" } } ;
	add_owned (v, "C01", r, owned) ;
	v.fmt = plan.at ("cfg").gets ("fmt") ; v.route = plan.at ("cfg").gets ("route") ;
	v.shape = plan_shape (plan) ;
	auto it = r.probes.find ("model_items_compared") ;
	bool nonzero = plan.at ("cfg").at ("data").gets ("class") != "zeros" ;
	v.nontrivial = it != r.probes.end () && it->second > 0 && nonzero ;
	return v ;
}

// ------------------------------------------------------------------------------------------ C04

static void gen_read_to_eof (GenCtx &g, J &ops, int64_t N, int B, bool mixedT, int T)
{	int64_t total = N + 2 * B + 8, done = 0 ;
	int calls = 0 ;
	while (done < total && calls < 12)
	{	J rd = mkop ("read") ;
		rd ["T"] = stype_name (mixedT ? (int) g.rng.below (4) : T) ;
		if (g.rng.chance (0.5)) rd ["fr"] = 1 ;
		int64_t n = calls == 11 ? total - done : g.rng.range (1, std::max<int64_t> (1, (total - done))) ;
		if (g.rng.chance (0.3)) n = total - done ;
		rd ["n"] = (long long) n ; done += n ; calls ++ ;
		ops.push (rd) ;
	}
	J rd = mkop ("read") ; rd ["T"] = stype_name (T) ; rd ["n"] = 5 ; ops.push (rd) ;
}

static J gen_c04 (uint64_t seed, uint64_t idx)
{	const std::vector<Fmt> &fmts = all_formats () ;
	J plan = plan_skeleton ("C04", seed, idx) ;
	GenCtx g (sub_seed (seed, "C04", idx)) ;
	const Fmt &f = fmts [idx % fmts.size ()] ;
	int rate = g.pick_rate (f, true) ;
	int ch = g.pick_channels (f, rate) ;
	std::string route = g.pick_route (f, true) ;
	base_cfg (plan, f, ch, rate, route, g) ;
	int T = (int) g.rng.below (4) ;
	plan ["cfg"]["T"] = stype_name (T) ;
	static const int64_t ff [] = { 0, 0, 1, 1000000000LL, -1, 0x7fffffffffffffffLL, 12345 } ;
	int64_t frames_field = ff [g.rng.below (7)] ;
	J ops = J::arr () ;
	int64_t N = gen_writer (g, ops, f, ch, rate, route, g.rng.chance (0.6), T, true, frames_field) ;
	if (frames_field == 12345) ops [0]["frames"] = (long long) N ;
	J o = mkop ("open") ; o ["mode"] = "r" ; if (g.rng.chance (0.3)) o ["dirty_info"] = 1 ; ops.push (o) ;
	gen_read_to_eof (g, ops, N, block_frames (f, ch, rate), g.rng.chance (0.3), T) ;
	ops.push (mkop ("close")) ;
	J task = J::obj () ; task ["ops"] = ops ;
	plan ["tasks"].push (task) ;
	return plan ;
}

static bool stores_equal (const Result &a, const Result &b, std::string &where)
{	for (auto &kv : a.stores)
	{	auto it = b.stores.find (kv.first) ;
		if (it == b.stores.end ()) { where = kv.first + " missing" ; return false ; }
		if (kv.second != it->second)
		{	size_t n = std::min (kv.second.size (), it->second.size ()), k = 0 ;
			while (k < n && kv.second [k] == it->second [k]) k++ ;
			char b2 [160] ; snprintf (b2, sizeof (b2), "%s: sizes %zu / %zu, first difference at byte %zu", kv.first.c_str (), kv.second.size (), it->second.size (), k) ;
			where = b2 ; return false ;
		}
	}
	return true ;
}

static Verdict check_c04 (const J &plan)
{	Verdict v ;
	Result r = execute (plan) ;
	v.absorb (r) ;
	static const std::map<std::string, std::string> owned = {
		{ "info.channels", "channels" }, { "info.container", "format" }, { "info.encoding", "format" }, { "info.rate", "rate" },
		{ "frames.range", "frames.range" }, { "read.short_not_eof", "eof.delivered" }, { "read.beyond_eof", "eof.delivered_more" },
		{ "open.fail#read", "reopen.fail" } } ;
	add_owned (v, "C04", r, owned) ;
	v.fmt = plan.at ("cfg").gets ("fmt") ; v.route = plan.at ("cfg").gets ("route") ;
	const J &ops = plan.at ("tasks") [0].at ("ops") ;
	int64_t ff = ops.size () ? ops [0].geti ("frames", 0) : 0 ;
	if (ff != 0 && v.findings.empty ())
	{	J p2 = plan ; p2 ["tasks"][0]["ops"][0].erase ("frames") ;
		Result r2 = execute (p2) ;
		v.absorb (r2) ;
		std::string where ;
		if (!stores_equal (r, r2, where))
		{	Finding f ; f.sig = make_sig_raw ("C04", "stale_frames", v.fmt, v.route, "none", "store_differs") ; f.detail = "store depends on SF_INFO.frames passed at open: " + where ;
			v.findings.push_back (f) ;
		}
		v.probes ["stale_frames_differential"] ++ ;
	}
	v.shape = plan_shape (plan) ;
	const Fmt *f = find_format_name (v.fmt) ;
	int64_t N = r.notes.geti ("N", -1), B = r.notes.geti ("B", 1) ;
	int64_t sr = plan.at ("cfg").geti ("sr") ;
	v.nontrivial = N >= 0 && ((B > 1 && N % B) || ((N * plan.at ("cfg").geti ("ch", 1)) & 1) || (sr != 8000 && sr != 11025 && sr != 44100) || ff != 0) ;
	(void) f ;
	return v ;
}

// ------------------------------------------------------------------------------------------ C05

static void gen_reader_history (GenCtx &g, J &ops, const Fmt &f, int ch, int rate, int64_t N, int nops, bool fixedT, int T, bool seek_heavy)
{	int B = block_frames (f, ch, rate) ;
	// ALAC reports exact frame counts (B = 1 for the frame-count model) but decodes packets of 4096 frames: seek targets use the packet size
	int Bread = B ;
	if (f.sub >= SF_FORMAT_ALAC_16 && f.sub <= SF_FORMAT_ALAC_32) B = 4096 ;
	int64_t pos = 0 ;
	for (int k = 0 ; k < nops ; k++)
	{	bool do_seek = g.rng.chance (seek_heavy ? 0.5 : 0.25) ;
		if (do_seek)
		{	J s = mkop ("seek") ;
			int64_t tgt ;
			uint64_t r = g.rng.below (100) ;
			int64_t nb = N / std::max (1, B) ;
			if (r < 10) tgt = 0 ;
			else if (r < 20) tgt = N ;
			else if (r < 28) tgt = N - 1 ;
			else if (r < 36) tgt = std::max<int64_t> (0, N - B) ;
			else if (r < 60 && B > 1 && nb > 0) { int64_t kb = (int64_t) g.rng.below ((uint64_t) nb + 1) * B ; int64_t d [] = { -1, 0, 1 } ; tgt = kb + d [g.rng.below (3)] ; }
			else if (r < 68) tgt = N + 1 + (int64_t) g.rng.below (5) ;			// beyond: must be refused
			else if (r < 72) tgt = -1 - (int64_t) g.rng.below (3) ;				// negative: must be refused
			else tgt = N > 0 ? (int64_t) g.rng.below ((uint64_t) N + 1) : 0 ;
			if (g.rng.chance (0.6) && pos > 0) tgt = (int64_t) g.rng.below ((uint64_t) pos + 1) ;	// backwards emphasised
			if (B > 1 && nb >= 1 && g.rng.chance (0.15)) tgt = std::min<int64_t> (N, (1 + (int64_t) g.rng.below ((uint64_t) nb)) * B) ;	// exactly on a block boundary other than 0
			int whence = (int) g.rng.below (3) ;
			int64_t off = whence == 0 ? tgt : whence == 1 ? tgt - pos : tgt - N ;
			s ["off"] = (long long) off ; s ["whence"] = whence ;
			ops.push (s) ;
			if (tgt >= 0 && tgt <= N) pos = tgt ;
		}
		else
		{	J rd = mkop ("read") ;
			int rt = fixedT ? T : (int) g.rng.below (g.rng.chance (0.1) && f.sample_granular () ? 5 : 4) ;
			rd ["T"] = stype_name (rt) ;
			if (g.rng.chance (0.5)) rd ["fr"] = 1 ;
			int64_t n = g.pick_frames (Bread, ch, -1) ;
			if (g.rng.chance (0.12)) n = std::max<int64_t> (1, N - pos) + (int64_t) g.rng.below (4) ;	// remaining, remaining+k
			if (g.rng.chance (0.05)) n = 0 ;
			rd ["n"] = (long long) n ;
			ops.push (rd) ;
			pos = std::min (N, pos + n) ;
		}
	}
}

// a quarter of the files carry a chunk behind the audio (a string set after the last write: WAV LIST, AIFF and CAF text chunks), so that
// the end of the audio is not the end of the file and the readers' end-of-data handling is what stops a read. Decided from a
// stream of its own: the other plans stay what they were.
static void late_string (uint64_t seed, const char *stream, uint64_t idx, J &ops)
{	GenCtx gx (sub_seed (seed, stream, idx)) ;
	if (!gx.rng.chance (0.25) || ops.size () == 0 || ops [ops.size () - 1].gets ("op") != "close") return ;
	J s = mkop ("setstr") ; s ["type"] = (int) gx.rng.pick<int> ({ SF_STR_COMMENT, SF_STR_TITLE, SF_STR_ARTIST }) ; s ["len"] = (long long) gx.rng.range (1, 60) ; s ["stream"] = 7 ;
	ops.a.insert (ops.a.end () - 1, s) ;
}

static J gen_c05 (uint64_t seed, uint64_t idx)
{	const std::vector<Fmt> &fmts = all_formats () ;
	J plan = plan_skeleton ("C05", seed, idx) ;
	GenCtx g (sub_seed (seed, "C05", idx)) ;
	const Fmt &f = fmts [idx % fmts.size ()] ;
	int rate = g.pick_rate (f, false) ;
	int ch = g.pick_channels (f, rate) ;
	bool benign = !needs_path_route (f) && g.rng.chance (0.4) ;
	std::string route = benign ? "vio" : g.pick_route (f, true) ;
	base_cfg (plan, f, ch, rate, route, g) ;
	if (benign) { plan.erase ("io") ; gen_benign_io (g, plan) ; plan ["cfg"]["benign"] = 1 ; }
	int T = (int) g.rng.below (4) ;
	plan ["cfg"]["T"] = stype_name (T) ;
	plan ["cfg"]["ref"] = 1 ;
	J ops = J::arr () ;
	int64_t N = gen_writer (g, ops, f, ch, rate, route, g.rng.chance (0.5), T, false, 0) ;
	if (f.sample_granular () && g.rng.chance (0.1))
	{	// a raw write among the typed ones
		J w = mkop ("write") ; w ["T"] = "raw" ; w ["n"] = (long long) g.rng.range (1, 300) ;
		ops.a.insert (ops.a.end () - 1, w) ; N += w.geti ("n") ;
	}
	late_string (seed, "C05x", idx, ops) ;
	J o = mkop ("open") ; o ["mode"] = "r" ; ops.push (o) ;
	gen_reader_history (g, ops, f, ch, rate, N, (int) g.rng.range (3, 30), false, T, false) ;
	ops.push (mkop ("close")) ;
	J task = J::obj () ; task ["ops"] = ops ;
	plan ["tasks"].push (task) ;
	return plan ;
}

static bool transcripts_equal (const Result &a, const Result &b, std::string &where)
{	for (size_t t = 0 ; t < a.transcript.size () && t < b.transcript.size () ; t++)
	{	const auto &x = a.transcript [t], &y = b.transcript [t] ;
		size_t n = std::min (x.size (), y.size ()) ;
		for (size_t k = 0 ; k < n ; k++)
		{	if (x [k].skipped && y [k].skipped) continue ;
			bool is_open = x [k].api.compare (0, 5, "open:") == 0 ;
			if (x [k].ret != y [k].ret || x [k].err != y [k].err || x [k].dh != y [k].dh || (!is_open && x [k].api != y [k].api))
			{	char b2 [200] ; snprintf (b2, sizeof (b2), "task %zu op %zu (%s): ret %lld/%lld err %d/%d data %016llx/%016llx", t, k, x [k].api.c_str (),
					(long long) x [k].ret, (long long) y [k].ret, x [k].err, y [k].err, (unsigned long long) x [k].dh, (unsigned long long) y [k].dh) ;
				where = b2 ; return false ;
			}
		}
		if (x.size () != y.size ()) { where = "transcript lengths differ" ; return false ; }
	}
	return true ;
}

static Verdict check_c05 (const J &plan)
{	Verdict v ;
	Result r = execute (plan) ;
	v.absorb (r) ;
	static const std::map<std::string, std::string> owned = {
		{ "read.range", "read.range" }, { "read.whole_frames", "read.whole_frames" }, { "read.pos", "read.pos" },
		{ "read.short_not_eof", "read.short_not_eof" }, { "read.beyond_eof", "read.beyond_eof" }, { "read.eof_zero", "read.eof_zero" },
		{ "read.eof_error", "read.eof_error" }, { "data.ref", "read.data" },
		{ "write.range", "write.range" }, { "write.count", "write.count" }, { "write.pos", "write.pos" }, { "write.frames", "write.frames" },
		{ "write.buffer_modified", "write.buffer_modified" }, { "inv#read_current outside [0, frames]", "read.pos" } } ;
	add_owned (v, "C05", r, owned) ;
	v.fmt = plan.at ("cfg").gets ("fmt") ; v.route = plan.at ("cfg").gets ("route") ;
	if (plan.at ("cfg").geti ("benign") && v.findings.empty ())
	{	// the same plan on the descriptor route under a benign schedule (short transfers, EINTR) must be indistinguishable
		J p1 = plan ; p1.erase ("io") ;
		J p2 = plan ; p2 ["cfg"]["route"] = "fd" ;
		Result a = execute (p1), b = execute (p2) ;
		v.absorb (a) ; v.absorb (b) ;
		std::string where ;
		if (!transcripts_equal (a, b, where))
		{	Finding f ; f.sig = make_sig_raw ("C05", "benign.transparent", v.fmt, "fd", "benign", "transcript") ; f.detail = "short transfers / EINTR on the descriptor route changed results: " + where ; v.findings.push_back (f) ; }
		else if (!stores_equal (a, b, where))
		{	Finding f ; f.sig = make_sig_raw ("C05", "benign.transparent", v.fmt, "fd", "benign", "store") ; f.detail = "short transfers / EINTR on the descriptor route changed the stored bytes: " + where ; v.findings.push_back (f) ; }
		v.probes ["benign_differential"] ++ ;
	}
	v.shape = plan_shape (plan) ;
	v.nontrivial = r.probes.count ("ref_items_compared") && (r.probes.count ("read_larger_than_remaining") || r.probes.count ("read_at_eof") || r.probes.count ("partial_final_block")) ;
	return v ;
}

// ------------------------------------------------------------------------------------------ C06

static J gen_c06 (uint64_t seed, uint64_t idx)
{	const std::vector<Fmt> &fmts = all_formats () ;
	J plan = plan_skeleton ("C06", seed, idx) ;
	GenCtx g (sub_seed (seed, "C06", idx)) ;
	const Fmt &f = fmts [idx % fmts.size ()] ;
	int rate = g.pick_rate (f, false) ;
	int ch = g.pick_channels (f, rate) ;
	std::string route = g.pick_route (f, true) ;
	base_cfg (plan, f, ch, rate, route, g) ;
	int T = (int) g.rng.below (4) ;
	plan ["cfg"]["T"] = stype_name (T) ;
	plan ["cfg"]["ref"] = 1 ;
	J ops = J::arr () ;
	int64_t N = gen_writer (g, ops, f, ch, rate, route, false, T, false, 0) ;
	late_string (seed, "C06x", idx, ops) ;
	J o = mkop ("open") ; o ["mode"] = "r" ; ops.push (o) ;
	gen_reader_history (g, ops, f, ch, rate, N, (int) g.rng.range (4, 40), true, T, true) ;
	ops.push (mkop ("close")) ;
	J task = J::obj () ; task ["ops"] = ops ;
	plan ["tasks"].push (task) ;
	return plan ;
}

static Verdict check_c06 (const J &plan)
{	Verdict v ;
	Result r = execute (plan) ;
	v.absorb (r) ;
	static const std::map<std::string, std::string> owned = {
		{ "data.ref", "data" }, { "seek.ret", "seek.ret" }, { "seek.pos", "seek.pos" }, { "seek.fail_no_error", "seek.fail_no_error" },
		{ "inv#read_current outside [0, frames]", "seek.pos" } } ;
	add_owned (v, "C06", r, owned) ;
	v.fmt = plan.at ("cfg").gets ("fmt") ; v.route = plan.at ("cfg").gets ("route") ;
	v.shape = plan_shape (plan) ;
	v.nontrivial = r.probes.count ("seek_interior") && r.probes.count ("ref_items_compared") ;
	return v ;
}

// ------------------------------------------------------------------------------------------

extern const Profile k_prof_c01 = { "C01", gen_c01, check_c01, "N > 0, re-open succeeded, >= 1 item compared against the value model, value class != zeros" } ;
extern const Profile k_prof_c04 = { "C04", gen_c04, check_c04, "N not a multiple of B, or odd byte total, or rate not in {8000,11025,44100}, or caller frames field != 0" } ;
extern const Profile k_prof_c05 = { "C05", gen_c05, check_c05, ">= 1 read compared against the sequential reference and >= 1 request larger than remaining / at EOF / partial final block" } ;
extern const Profile k_prof_c06 = { "C06", gen_c06, check_c06, ">= 1 successful seek to 0 < k < F followed by a read compared with the sequential reference" } ;
