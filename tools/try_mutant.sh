#!/bin/sh
# try_mutant.sh <patch.diff> <check id>... : apply a seeded defect to /repo, run the given checks (quick), undo it.
P=$1; shift
git -C /repo apply $P || { echo "cannot apply $P"; exit 2; }
for c in "$@"; do
	OUT=$(VERIF_EVID=/verif/build/evidence-mutant /verif/check $c quick 2>&1); RC=$?
	echo "== $c exit=$RC  $(echo "$OUT" | grep -c '^VIOLATION') violation line(s)"
	echo "$OUT" | grep -A2 '^VIOLATION' | head -12
	echo "$OUT" | grep -E '^(INFRA|BUILD-FAILURE)' | head -3
done
git -C /repo checkout -- .
/verif/tools/rb.sh
