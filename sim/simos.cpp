// SimOS implementation + link-time wrappers (-Wl,--wrap=...) that route every syscall made
// while inside a library call (and every simulated fd / path at any time) to the simulated OS.
#include "simos.hpp"
#include <dirent.h>
#include <sys/stat.h>
#include <set>
#include <cerrno>
#include <cstdarg>
#include <cstdio>
#include <cstdlib>
#include <cstring>
#include <fcntl.h>
#include <sys/stat.h>
#include <sys/time.h>
#include <sys/types.h>
#include <unistd.h>

SimOS *g_os = nullptr ;

static const char *k_fault_names [F_KIND_COUNT] =
{	"none",
	"vio_read_zero", "vio_read_short", "vio_write_zero", "vio_write_short",
	"vio_seek_fail", "vio_seek_wrong", "vio_tell_wrong", "vio_len_small", "vio_len_big",
	"fd_read_eio", "fd_write_eio", "fd_write_enospc", "fd_ebadf", "fd_lseek_fail",
	"fd_fstat_fail", "fd_ftrunc_fail", "fd_close_fail", "open_fail", "tmp_write_short",
	"fd_short_read", "fd_short_write", "eintr_read", "eintr_write", "eintr_close"
} ;

const char *fault_name (int kind) { return kind >= 0 && kind < F_KIND_COUNT ? k_fault_names [kind] : "?" ; }
int fault_from_name (const std::string &s)
{	for (int k = 0 ; k < F_KIND_COUNT ; k++) if (s == k_fault_names [k]) return k ;
	return F_NONE ;
}
int fault_class (int kind)
{	switch (kind)
	{	case F_VIO_READ_ZERO : case F_VIO_READ_SHORT : case F_FD_READ_EIO : case F_FD_SHORT_READ : case F_EINTR_READ : return IO_READ ;
		case F_VIO_WRITE_ZERO : case F_VIO_WRITE_SHORT : case F_FD_WRITE_EIO : case F_FD_WRITE_ENOSPC : case F_FD_SHORT_WRITE :
		case F_EINTR_WRITE : case F_TMP_WRITE_SHORT : return IO_WRITE ;
		case F_VIO_SEEK_FAIL : case F_VIO_SEEK_WRONG : case F_FD_LSEEK_FAIL : return IO_SEEK ;
		case F_VIO_TELL_WRONG : return IO_TELL ;
		case F_VIO_LEN_SMALL : case F_VIO_LEN_BIG : case F_FD_FSTAT_FAIL : return IO_LEN ;
		case F_FD_FTRUNC_FAIL : return IO_TRUNC ;
		case F_FD_CLOSE_FAIL : case F_EINTR_CLOSE : return IO_CLOSE ;
		case F_OPEN_FAIL : return IO_OPEN ;
		case F_FD_EBADF : return -1 ;	// any class
	}
	return -2 ;
}
bool fault_is_vio (int kind) { return kind >= F_VIO_READ_ZERO && kind <= F_VIO_LEN_BIG ; }
bool fault_is_benign (int kind) { return kind >= F_FD_SHORT_READ && kind <= F_EINTR_CLOSE ; }

extern "C" ssize_t __real_write (int fd, const void *buf, size_t n) ;
extern "C" void __sanitizer_print_stack_trace (void) ;
static int64_t g_ring [32][5] ; static unsigned g_ring_n ;
extern "C" void simos_die (int code, const char *why)
{	// Budget overrun / infrastructure death: report on stderr (captured per worker) and leave.
	char buf [256] ;
	if (g_os) { g_os->in_lib = false ; g_os->op_budget = 0 ; }
	int n = snprintf (buf, sizeof (buf), "SIMDIE code=%d why=%s\n", code, why ? why : "") ;
	if (__real_write (2, buf, n) < 0) {}
	if (code == 78)
	{	__sanitizer_print_stack_trace () ;
		for (unsigned k = g_ring_n > 24 ? g_ring_n - 24 : 0 ; k < g_ring_n ; k++)
		{	int64_t *e = g_ring [k & 31] ;
			n = snprintf (buf, sizeof (buf), "  io[%u] class=%lld a=%lld b=%lld ret=%lld fault=%s\n", k, (long long) e [0], (long long) e [1], (long long) e [2], (long long) e [3], fault_name ((int) e [4])) ;
			if (__real_write (2, buf, n) < 0) {}
		}
	}
	_exit (code) ;
}

void SimOS::reset ()
{	ns.clear () ; fds.clear () ; next_fd = 1000 ; fd_zero = false ; mem_fill = -1 ;
	clock_off = 0 ; clock_reads = 0 ;
	in_lib = false ; cur_task = cur_op = 0 ; op_io = 0 ; op_budget = 0 ; cur_api = "" ;
	faults.clear () ; fd_chunks.clear () ; fd_chunk_k = 0 ; eintr_every = 0 ; rw_calls = 0 ; enospc_quota = -1 ;
	ledger.clear () ; lib_allocs = lib_alloc_bytes = 0 ; audit_errors.clear () ;
	trace = 1469598103934665603ULL ; st = IoStats () ; any_fault_fired = false ; last_fault_kind = F_NONE ;
	chatter = 0 ;
	jmp_armed = false ; record_io = false ; io_log.clear () ; have_fault_snapshot = false ; fault_snapshot.clear () ;
}

SimFileP SimOS::file (const std::string &name, bool create)
{	auto it = ns.find (name) ;
	if (it != ns.end ()) return it->second ;
	if (!create) return nullptr ;
	SimFileP f = std::make_shared<SimFile> () ;
	f->name = name ;
	ns [name] = f ;
	return f ;
}

int SimOS::open_fd (SimFileP f, int flags, bool by_lib)
{	// lowest free number, as a kernel does: a stale close of an old number can then hit an unrelated handle
	int fd = 1000 ;
	// fd_zero: the process behaves as if its standard input were closed, so the lowest free descriptor number is 0
	if (fd_zero) { auto it = fds.find (0) ; if (it == fds.end () || !it->second.is_open) fd = 0 ; }
	if (fd != 0) for (;;) { auto it = fds.find (fd) ; if (it == fds.end () || !it->second.is_open) break ; fd ++ ; }
	if (fd >= next_fd) next_fd = fd + 1 ;
	SimFd &d = fds [fd] ;
	d = SimFd () ;
	d.f = f ; d.off = 0 ; d.flags = flags ; d.is_open = true ; d.opened_by_lib = by_lib ;
	return fd ;
}

int SimOS::bind_fd (int fd, SimFileP f, int flags)
{	SimFd &d = fds [fd] ;
	d = SimFd () ;
	d.f = f ; d.off = 0 ; d.flags = flags ; d.is_open = true ; d.opened_by_lib = false ;
	return fd ;
}

// leaves `fill` in the 96 KiB of stack below the caller, where the frames of the library call about to be made will lie. Called
// from the frame that makes the library call, immediately before it (GUARD), and not instrumented: apart from a return address
// nothing else is left between the caller's frame and the filled region.
extern "C" __attribute__ ((noinline, no_sanitize ("address"), no_sanitize ("undefined"))) void simos_poison_stack (int fill)
{	if (fill < 0) return ;
	volatile unsigned char pad [96 * 1024] ;
	for (size_t k = 0 ; k < sizeof (pad) ; k++) pad [k] = (unsigned char) fill ;
	__asm__ __volatile__ ("" : : "r" (pad) : "memory") ;
}

void SimOS::begin_op (int task, int op, const char *api, int64_t budget)
{	cur_task = task ; cur_op = op ; cur_api = api ; op_io = 0 ; op_budget = fd_chunks.empty () ? budget : 0 ;
	if (passthrough) pt_sync_out () ;
	in_lib = true ;
}
void SimOS::end_op () { bool was = in_lib ; in_lib = false ; op_budget = 0 ; jmp_armed = false ; if (passthrough && was) pt_sync_in () ; }

Fault *SimOS::io_event (int cls, bool vio)
{	op_io ++ ; st.steps ++ ; st.by_class [cls] ++ ;
	if (op_budget > 0 && op_io > op_budget)
	{	if (jmp_armed) { jmp_armed = false ; in_lib = false ; op_budget = 0 ; longjmp (jb, 1) ; }
		simos_die (78, cur_api) ;
	}
	if (record_io && cur_task >= 0) io_log.push_back (IoRec { cur_task, cur_op, op_io, cls, vio }) ;
	for (auto &f : faults)
	{	if (f.task != cur_task) continue ;
		if (!f.armed)
		{	if ((f.op == cur_op && op_io >= f.io) || cur_op > f.op) f.armed = true ;
			else continue ;
		}
		if (fault_is_benign (f.kind)) { if (vio) continue ; }
		else if (f.kind != F_OPEN_FAIL && f.kind != F_TMP_WRITE_SHORT && fault_is_vio (f.kind) != vio) continue ;
		int fc = fault_class (f.kind) ;
		if (fc != -1 && fc != cls) continue ;
		if (!f.persistent && f.fired > 0) continue ;
		f.fired ++ ; st.faults_fired [f.kind] ++ ;
		if (!fault_is_benign (f.kind))
		{	if (!have_fault_snapshot)
			{	have_fault_snapshot = true ;
				for (auto &kv : ns) fault_snapshot [kv.first] = kv.second->data ;
			}
			any_fault_fired = true ; last_fault_kind = f.kind ;
		}
		return &f ;
	}
	return nullptr ;
}

void SimOS::leak_audit (std::vector<std::string> &out)
{	char b [256] ;
	if (!ledger.empty ())
	{	size_t bytes = 0 ; for (auto &kv : ledger) bytes += kv.second ;
		snprintf (b, sizeof (b), "heap: %zu library allocations (%zu bytes) still live", ledger.size (), bytes) ;
		out.push_back (b) ;
	}
	for (auto &kv : fds)
		if (kv.second.is_open && kv.second.opened_by_lib)
		{	snprintf (b, sizeof (b), "fd: library-opened descriptor %d (%s) still open", kv.first, kv.second.f ? kv.second.f->name.c_str () : "?") ;
			out.push_back (b) ;
		}
	for (auto &kv : ns)
		if (kv.first.size () >= 9 && kv.first.compare (kv.first.size () - 9, 9, "-alac.tmp") == 0)
			out.push_back ("tmp: temporary file left behind") ;
	for (auto &e : audit_errors) out.push_back (e) ;
}

std::string norm_path (const char *p)
{	std::string s = p ? p : "" ;
	if (s.empty () || s [0] != '/') s = "/sim/cwd/" + s ;
	return s ;
}

static inline void tr_io (int kind, int64_t a, int64_t b, int64_t r, int flt)
{	int64_t *e = g_ring [g_ring_n ++ & 31] ; e [0] = kind ; e [1] = a ; e [2] = b ; e [3] = r ; e [4] = flt ;
	if (!g_os->trace_io_enabled) return ;
	g_os->trace_mix (0x1000 + kind) ; g_os->trace_mix ((uint64_t) a) ; g_os->trace_mix ((uint64_t) b) ; g_os->trace_mix ((uint64_t) r) ; g_os->trace_mix (flt) ;
}

// ------------------------------------------------------------------------------------------
// Virtual I/O adapter

static sf_count_t vio_len (void *ud)
{	SimVio *v = (SimVio *) ud ;
	Fault *f = g_os->io_event (IO_LEN, true) ;
	sf_count_t r = (sf_count_t) v->f->data.size () ;
	if (f)
	{	if (f->kind == F_VIO_LEN_SMALL) r = f->arg >= 0 && f->arg < r ? f->arg : r / 2 ;
		else if (f->kind == F_VIO_LEN_BIG) r = f->arg > r ? f->arg : r * 2 + 1 ;
	}
	tr_io (IO_LEN, 0, 0, r, f ? f->kind : 0) ;
	return r ;
}

static sf_count_t vio_seek (sf_count_t offset, int whence, void *ud)
{	SimVio *v = (SimVio *) ud ;
	Fault *f = g_os->io_event (IO_SEEK, true) ;
	if (f && f->kind == F_VIO_SEEK_FAIL) { tr_io (IO_SEEK, offset, whence, -1, f->kind) ; return -1 ; }
	int64_t base = whence == SEEK_SET ? 0 : whence == SEEK_CUR ? v->off : whence == SEEK_END ? (int64_t) v->f->data.size () : -1 ;
	int64_t np ;
	if (base < 0 || __builtin_add_overflow (base, (int64_t) offset, &np) || np < 0)
	{	g_os->st.odd_requests ++ ;
		tr_io (IO_SEEK, offset, whence, -1, 0) ;
		return -1 ;
	}
	v->off = np ;
	sf_count_t r = np ;
	if (f && f->kind == F_VIO_SEEK_WRONG) r = np + (f->arg ? f->arg : 1) ;
	tr_io (IO_SEEK, offset, whence, r, f ? f->kind : 0) ;
	return r ;
}

static sf_count_t vio_read (void *ptr, sf_count_t count, void *ud)
{	SimVio *v = (SimVio *) ud ;
	Fault *f = g_os->io_event (IO_READ, true) ;
	if (count <= 0 || ptr == nullptr) { if (count != 0) g_os->st.odd_requests ++ ; tr_io (IO_READ, v->off, count, 0, 0) ; return 0 ; }
	int64_t avail = (int64_t) v->f->data.size () - v->off ;
	if (avail < 0) avail = 0 ;
	int64_t n = count < avail ? count : avail ;
	if (f)
	{	if (f->kind == F_VIO_READ_ZERO) n = 0 ;
		else if (f->kind == F_VIO_READ_SHORT) { int64_t k = f->arg > 0 ? f->arg : n / 2 ; if (k < n) n = k ; }
	}
	if (n > 0)
	{	memcpy (ptr, v->f->data.data () + v->off, (size_t) n) ;
		if (v->f->min_read < 0 || v->off < v->f->min_read) v->f->min_read = v->off ;
		if (v->off + n > v->f->max_read_end) v->f->max_read_end = v->off + n ;
		v->off += n ;
	}
	tr_io (IO_READ, v->off, count, n, f ? f->kind : 0) ;
	return n ;
}

static void file_write_at (SimFile *sf, int64_t off, const void *ptr, int64_t n)
{	if (n <= 0) return ;
	if ((int64_t) sf->data.size () < off + n) sf->data.resize ((size_t) (off + n), 0) ;
	memcpy (sf->data.data () + off, ptr, (size_t) n) ;
	if (sf->min_write < 0 || off < sf->min_write) sf->min_write = off ;
	if (off + n > sf->max_write_end) sf->max_write_end = off + n ;
}

static sf_count_t vio_write (const void *ptr, sf_count_t count, void *ud)
{	SimVio *v = (SimVio *) ud ;
	Fault *f = g_os->io_event (IO_WRITE, true) ;
	if (count <= 0 || ptr == nullptr) { if (count != 0) g_os->st.odd_requests ++ ; tr_io (IO_WRITE, v->off, count, 0, 0) ; return 0 ; }
	int64_t n = count ;
	if (v->off + n > (int64_t) 1 << 26) { g_os->st.odd_requests ++ ; n = 0 ; }
	if (f)
	{	if (f->kind == F_VIO_WRITE_ZERO) n = 0 ;
		else if (f->kind == F_VIO_WRITE_SHORT) { int64_t k = f->arg > 0 ? f->arg : n / 2 ; if (k < n) n = k ; }
	}
	file_write_at (v->f.get (), v->off, ptr, n) ;
	v->off += n ;
	tr_io (IO_WRITE, v->off, count, n, f ? f->kind : 0) ;
	return n ;
}

static sf_count_t vio_tell (void *ud)
{	SimVio *v = (SimVio *) ud ;
	Fault *f = g_os->io_event (IO_TELL, true) ;
	sf_count_t r = v->off ;
	if (f && f->kind == F_VIO_TELL_WRONG) r = v->off + (f->arg ? f->arg : 1) ;
	tr_io (IO_TELL, 0, 0, r, f ? f->kind : 0) ;
	return r ;
}

SF_VIRTUAL_IO simos_vio ()
{	SF_VIRTUAL_IO v ;
	v.get_filelen = vio_len ; v.seek = vio_seek ; v.read = vio_read ; v.write = vio_write ; v.tell = vio_tell ;
	return v ;
}

// ------------------------------------------------------------------------------------------
// Link-time wrappers

extern "C" {
int __real_open (const char *path, int flags, ...) ;
int __real_close (int fd) ;
ssize_t __real_read (int fd, void *buf, size_t n) ;
ssize_t __real_write (int fd, const void *buf, size_t n) ;
off_t __real_lseek (int fd, off_t off, int whence) ;
int __real_fstat (int fd, struct stat *st) ;
int __real_ftruncate (int fd, off_t len) ;
int __real_fsync (int fd) ;
int __real_access (const char *path, int mode) ;
int __real_remove (const char *path) ;
FILE *__real_fopen (const char *path, const char *mode) ;
time_t __real_time (time_t *t) ;
int __real_gettimeofday (struct timeval *tv, void *tz) ;
void *__real_malloc (size_t n) ;
void *__real_calloc (size_t a, size_t b) ;
void *__real_realloc (void *p, size_t n) ;
void __real_free (void *p) ;
int __real_printf (const char *fmt, ...) ;
int __real_puts (const char *s) ;
int __real_putchar (int c) ;
}

static inline bool sim_active () { return g_os != nullptr ; }
static inline bool in_lib () { return g_os && g_os->in_lib ; }
static inline bool is_sim_path (const char *p) { return p && !strncmp (p, "/sim/", 5) ; }
static inline bool is_sim_fd (int fd) { return fd >= 1000 || (fd == 0 && g_os && g_os->fd_zero) ; }

static inline bool pt_on ()
{	if (!(g_os && g_os->passthrough && g_os->in_lib)) return false ;
	g_os->io_event (IO_READ, false) ;		// the step budget (bounded liveness) holds on the kernel route as well; no faults are configured there
	return true ;
}
static std::string pt_path (const char *path)
{	std::string p = norm_path (path) ;
	if (p.compare (0, 5, "/sim/") == 0) return g_os->pt_root + p.substr (4) ;
	return p ;
}

static uint64_t pt_hash_bytes (const std::vector<uint8_t> &d)
{	uint64_t h = 1469598103934665603ULL ^ d.size () ;
	for (uint8_t b : d) { h ^= b ; h *= 1099511628211ULL ; }
	return h ;
}

void SimOS::pt_sync_out ()
{	bool save = in_lib ; in_lib = false ;
	for (const char *dir : { "/cwd", "/tmp" }) { std::string d = pt_root + dir ; mkdir (pt_root.c_str (), 0755) ; mkdir (d.c_str (), 0755) ; }
	for (auto &kv : ns)
	{	if (kv.second->is_fifo || kv.first.compare (0, 5, "/sim/") != 0) continue ;
		uint64_t h = pt_hash_bytes (kv.second->data) ;
		auto it = pt_synced.find (kv.first) ;
		if (it != pt_synced.end () && it->second == h) continue ;
		std::string rp = pt_root + kv.first.substr (4) ;
		int fd = __real_open (rp.c_str (), O_WRONLY | O_CREAT | O_TRUNC, 0644) ;
		if (fd >= 0)
		{	size_t off = 0 ; while (off < kv.second->data.size ()) { ssize_t w = __real_write (fd, kv.second->data.data () + off, kv.second->data.size () - off) ; if (w <= 0) break ; off += (size_t) w ; }
			__real_close (fd) ;
		}
		pt_synced [kv.first] = h ;
	}
	for (auto it = pt_synced.begin () ; it != pt_synced.end () ; )
	{	if (!ns.count (it->first)) { std::string rp = pt_root + it->first.substr (4) ; __real_remove (rp.c_str ()) ; it = pt_synced.erase (it) ; }
		else ++ it ;
	}
	in_lib = save ;
}

void SimOS::pt_wipe ()
{	pt_synced.clear () ;
	for (const char *dir : { "/cwd", "/tmp" })
	{	std::string d = pt_root + dir ;
		mkdir (pt_root.c_str (), 0755) ; mkdir (d.c_str (), 0755) ;
		DIR *dp = opendir (d.c_str ()) ;
		if (!dp) continue ;
		std::vector<std::string> names ;
		while (struct dirent *e = readdir (dp)) if (strcmp (e->d_name, ".") && strcmp (e->d_name, "..")) names.push_back (d + "/" + e->d_name) ;
		closedir (dp) ;
		for (auto &n : names) __real_remove (n.c_str ()) ;
	}
}

void SimOS::pt_sync_in ()
{	std::set<std::string> seen ;
	for (const char *dir : { "/cwd", "/tmp" })
	{	std::string d = pt_root + dir ;
		DIR *dp = opendir (d.c_str ()) ;
		if (!dp) continue ;
		while (struct dirent *e = readdir (dp))
		{	if (!strcmp (e->d_name, ".") || !strcmp (e->d_name, "..")) continue ;
			std::string rp = d + "/" + e->d_name, name = std::string ("/sim") + dir + "/" + e->d_name ;
			int fd = __real_open (rp.c_str (), O_RDONLY, 0) ;
			if (fd < 0) continue ;
			std::vector<uint8_t> data ; uint8_t b [65536] ; ssize_t n ;
			while ((n = __real_read (fd, b, sizeof (b))) > 0) data.insert (data.end (), b, b + n) ;
			__real_close (fd) ;
			SimFileP f = file (name, true) ;
			f->data.swap (data) ;
			pt_synced [name] = pt_hash_bytes (f->data) ;
			seen.insert (name) ;
		}
		closedir (dp) ;
	}
	for (auto it = ns.begin () ; it != ns.end () ; )
	{	bool mine = !it->second->is_fifo && (it->first.compare (0, 9, "/sim/cwd/") == 0 || it->first.compare (0, 9, "/sim/tmp/") == 0) ;
		if (mine && !seen.count (it->first)) { pt_synced.erase (it->first) ; it = ns.erase (it) ; } else ++ it ;
	}
}

static SimFd *get_fd (int fd)
{	auto it = g_os->fds.find (fd) ;
	if (it == g_os->fds.end () || !it->second.is_open) return nullptr ;
	return &it->second ;
}

extern "C" int __wrap_open (const char *path, int flags, ...)
{	mode_t mode = 0 ;
	if (flags & O_CREAT) { va_list ap ; va_start (ap, flags) ; mode = va_arg (ap, mode_t) ; va_end (ap) ; }
	if (pt_on ()) { std::string rp = pt_path (path) ; return __real_open (rp.c_str (), flags, mode) ; }
	if (!sim_active () || !(in_lib () || is_sim_path (path)))
		return __real_open (path, flags, mode) ;
	std::string p = norm_path (path) ;
	Fault *f = in_lib () ? g_os->io_event (IO_OPEN, false) : nullptr ;
	if (f && (f->kind == F_OPEN_FAIL || f->kind == F_FD_EBADF))
	{	errno = f->arg ? (int) f->arg : EMFILE ; tr_io (IO_OPEN, flags, 0, -1, f->kind) ; return -1 ; }
	SimFileP sf = g_os->file (p, false) ;
	if (!sf)
	{	// directory semantics: only /sim, /sim/cwd and /sim/tmp are directories; a path below a regular file is ENOTDIR
		size_t sl = p.rfind ('/') ;
		std::string parent = sl == std::string::npos ? std::string () : p.substr (0, sl) ;
		if (parent != "/sim/cwd" && parent != "/sim/tmp" && parent != "/sim")
		{	bool below_file = false ;
			for (size_t q = parent.size () ; q != std::string::npos && q > 0 ; q = parent.rfind ('/', q - 1)) { if (g_os->ns.count (parent.substr (0, q))) { below_file = true ; break ; } if (q == 0) break ; }
			errno = below_file ? ENOTDIR : ENOENT ; tr_io (IO_OPEN, flags, 0, -1, 0) ; return -1 ;
		}
		if (!(flags & O_CREAT)) { errno = ENOENT ; tr_io (IO_OPEN, flags, 0, -1, 0) ; return -1 ; }
		sf = g_os->file (p, true) ;
	}
	else if ((flags & O_CREAT) && (flags & O_EXCL)) { errno = EEXIST ; tr_io (IO_OPEN, flags, 0, -1, 0) ; return -1 ; }
	if ((flags & O_TRUNC) && (flags & O_ACCMODE) != O_RDONLY && !sf->is_fifo) sf->data.clear () ;
	int fd = g_os->open_fd (sf, flags, in_lib ()) ;
	tr_io (IO_OPEN, flags, 0, 1, 0) ;
	return fd ;
}

extern "C" int __wrap_close (int fd)
{	if (pt_on ()) return __real_close (fd) ;
	if (!sim_active () || !(in_lib () || is_sim_fd (fd)))
		return __real_close (fd) ;
	Fault *f = in_lib () ? g_os->io_event (IO_CLOSE, false) : nullptr ;
	auto it = g_os->fds.find (fd) ;
	if (it == g_os->fds.end ())
	{	if (in_lib ()) g_os->audit_errors.push_back ("fd: library closed a descriptor that is not a simulated one") ;
		errno = EBADF ; return -1 ;
	}
	SimFd &d = it->second ;
	if (f && f->kind == F_EINTR_CLOSE) { g_os->st.eintr_absorbed ++ ; errno = EINTR ; tr_io (IO_CLOSE, fd - 1000, 0, -1, f->kind) ; return -1 ; }
	if (!d.is_open)
	{	if (in_lib ()) g_os->audit_errors.push_back ("fd: library closed a descriptor twice") ;
		errno = EBADF ; return -1 ;
	}
	d.is_open = false ; d.close_count ++ ;
	if (in_lib ()) d.closed_by_lib = true ;
	if (f && (f->kind == F_FD_CLOSE_FAIL || f->kind == F_FD_EBADF)) { errno = EIO ; tr_io (IO_CLOSE, 0, 0, -1, f->kind) ; return -1 ; }
	tr_io (IO_CLOSE, 0, 0, 0, 0) ;
	return 0 ;
}

extern "C" ssize_t __wrap_read (int fd, void *buf, size_t n)
{	if (pt_on ()) return __real_read (fd, buf, n) ;
	if (!sim_active () || !(in_lib () || is_sim_fd (fd)))
		return __real_read (fd, buf, n) ;
	Fault *f = in_lib () ? g_os->io_event (IO_READ, false) : nullptr ;
	SimFd *d = get_fd (fd) ;
	if (!d || (d->flags & O_ACCMODE) == O_WRONLY) { errno = EBADF ; tr_io (IO_READ, 0, n, -1, 0) ; return -1 ; }
	if (f && f->kind == F_FD_READ_EIO) { errno = EIO ; tr_io (IO_READ, d->off, n, -1, f->kind) ; return -1 ; }
	if (f && f->kind == F_FD_EBADF) { errno = EBADF ; tr_io (IO_READ, d->off, n, -1, f->kind) ; return -1 ; }
	if (f && f->kind == F_EINTR_READ) { g_os->st.eintr_absorbed ++ ; errno = EINTR ; return -1 ; }
	g_os->rw_calls ++ ;
	if (in_lib () && g_os->eintr_every > 0 && g_os->rw_calls % g_os->eintr_every == 0)
	{	g_os->st.eintr_absorbed ++ ; errno = EINTR ; return -1 ; }
	if ((ssize_t) n < 0 || (n > 0 && buf == nullptr)) { g_os->st.odd_requests ++ ; errno = EFAULT ; return -1 ; }
	SimFile *sf = d->f.get () ;
	int64_t want = (int64_t) n ;
	if (in_lib () && !g_os->fd_chunks.empty () && !sf->is_fifo)
	{	int c = g_os->fd_chunks [g_os->fd_chunk_k ++ % g_os->fd_chunks.size ()] ;
		if (c > 0 && c < want) { want = c ; g_os->st.short_loops ++ ; }
	}
	if (f && f->kind == F_FD_SHORT_READ) { int64_t k = f->arg > 0 ? f->arg : 1 ; if (k < want) want = k ; }
	int64_t got ;
	if (sf->is_fifo)
	{	int64_t avail = (int64_t) sf->data.size () - (int64_t) sf->fifo_pos ;
		if (!sf->fifo_chunks.empty ())
		{	int c = sf->fifo_chunks [sf->fifo_k ++ % sf->fifo_chunks.size ()] ;
			if (c > 0 && c < want) want = c ;
		}
		got = want < avail ? want : avail ;
		if (got > 0) memcpy (buf, sf->data.data () + sf->fifo_pos, (size_t) got) ;
		sf->fifo_pos += got ;
	}
	else
	{	int64_t avail = (int64_t) sf->data.size () - d->off ;
		if (avail < 0) avail = 0 ;
		got = want < avail ? want : avail ;
		if (got > 0)
		{	memcpy (buf, sf->data.data () + d->off, (size_t) got) ;
			if (sf->min_read < 0 || d->off < sf->min_read) sf->min_read = d->off ;
			if (d->off + got > sf->max_read_end) sf->max_read_end = d->off + got ;
		}
		d->off += got ;
	}
	// benign schedules are not part of the trace: the trace of a benign run must equal the plain run
	return got ;
}

extern "C" ssize_t __wrap_write (int fd, const void *buf, size_t n)
{	if (pt_on ()) return __real_write (fd, buf, n) ;
	if (!sim_active () || !(in_lib () || is_sim_fd (fd)))
		return __real_write (fd, buf, n) ;
	Fault *f = in_lib () ? g_os->io_event (IO_WRITE, false) : nullptr ;
	SimFd *d = get_fd (fd) ;
	if (!d || (d->flags & O_ACCMODE) == O_RDONLY) { errno = EBADF ; tr_io (IO_WRITE, 0, n, -1, 0) ; return -1 ; }
	if (f && f->kind == F_FD_WRITE_EIO) { errno = EIO ; tr_io (IO_WRITE, d->off, n, -1, f->kind) ; return -1 ; }
	if (f && f->kind == F_FD_EBADF) { errno = EBADF ; tr_io (IO_WRITE, d->off, n, -1, f->kind) ; return -1 ; }
	if (f && f->kind == F_EINTR_WRITE) { g_os->st.eintr_absorbed ++ ; errno = EINTR ; return -1 ; }
	g_os->rw_calls ++ ;
	if (in_lib () && g_os->eintr_every > 0 && g_os->rw_calls % g_os->eintr_every == 0)
	{	g_os->st.eintr_absorbed ++ ; errno = EINTR ; return -1 ; }
	if ((ssize_t) n < 0 || (n > 0 && buf == nullptr)) { g_os->st.odd_requests ++ ; errno = EFAULT ; return -1 ; }
	SimFile *sf = d->f.get () ;
	int64_t want = (int64_t) n ;
	if (f && f->kind == F_FD_WRITE_ENOSPC)
	{	if (g_os->enospc_quota < 0) g_os->enospc_quota = f->arg > 0 ? f->arg : 0 ;
	}
	if (g_os->enospc_quota >= 0)
	{	if (g_os->enospc_quota == 0) { errno = ENOSPC ; tr_io (IO_WRITE, d->off, n, -1, F_FD_WRITE_ENOSPC) ; return -1 ; }
		if (want > g_os->enospc_quota) want = g_os->enospc_quota ;
		g_os->enospc_quota -= want ;
	}
	if (in_lib () && !g_os->fd_chunks.empty ())
	{	int c = g_os->fd_chunks [g_os->fd_chunk_k ++ % g_os->fd_chunks.size ()] ;
		if (c > 0 && c < want) { want = c ; g_os->st.short_loops ++ ; }
	}
	if (f && f->kind == F_FD_SHORT_WRITE) { int64_t k = f->arg > 0 ? f->arg : 1 ; if (k < want) want = k ; }
	if (sf->is_fifo)
	{	sf->data.insert (sf->data.end (), (const uint8_t *) buf, (const uint8_t *) buf + want) ;
		return want ;
	}
	if (d->flags & O_APPEND) d->off = (int64_t) sf->data.size () ;
	if (d->off + want > (int64_t) 1 << 26) { errno = EFBIG ; return -1 ; }
	file_write_at (sf, d->off, buf, want) ;
	d->off += want ;
	return want ;
}

extern "C" off_t __wrap_lseek (int fd, off_t off, int whence)
{	if (pt_on ()) return __real_lseek (fd, off, whence) ;
	if (!sim_active () || !(in_lib () || is_sim_fd (fd)))
		return __real_lseek (fd, off, whence) ;
	Fault *f = in_lib () ? g_os->io_event (IO_SEEK, false) : nullptr ;
	SimFd *d = get_fd (fd) ;
	if (!d) { errno = EBADF ; tr_io (IO_SEEK, off, whence, -1, 0) ; return -1 ; }
	if (f && (f->kind == F_FD_LSEEK_FAIL || f->kind == F_FD_EBADF)) { errno = f->kind == F_FD_EBADF ? EBADF : EINVAL ; tr_io (IO_SEEK, off, whence, -1, f->kind) ; return -1 ; }
	if (d->f->is_fifo) { errno = ESPIPE ; tr_io (IO_SEEK, off, whence, -1, 0) ; return -1 ; }
	int64_t base = whence == SEEK_SET ? 0 : whence == SEEK_CUR ? d->off : whence == SEEK_END ? (int64_t) d->f->data.size () : -1 ;
	int64_t np ;
	// like the kernel: EINVAL for a resulting offset that is negative or beyond the largest file the file system supports
	// (s_maxbytes; 16 TiB - 4 KiB on the ext file systems, which is what the pass-through validation runs on)
	if (base < 0 || __builtin_add_overflow (base, (int64_t) off, &np) || np < 0 || np > 0xFFFFFFFF000LL)
	{	g_os->st.odd_requests ++ ; errno = EINVAL ; tr_io (IO_SEEK, off, whence, -1, 0) ; return -1 ; }
	d->off = np ;
	tr_io (IO_SEEK, off, whence, np, 0) ;
	return np ;
}

extern "C" int __wrap_fstat (int fd, struct stat *st)
{	if (pt_on ()) return __real_fstat (fd, st) ;
	if (!sim_active () || !(in_lib () || is_sim_fd (fd)))
		return __real_fstat (fd, st) ;
	Fault *f = in_lib () ? g_os->io_event (IO_LEN, false) : nullptr ;
	SimFd *d = get_fd (fd) ;
	if (!d) { errno = EBADF ; tr_io (IO_LEN, 0, 0, -1, 0) ; return -1 ; }
	if (f && (f->kind == F_FD_FSTAT_FAIL || f->kind == F_FD_EBADF)) { errno = EIO ; tr_io (IO_LEN, 0, 0, -1, f->kind) ; return -1 ; }
	memset (st, 0, sizeof (*st)) ;
	st->st_mode = d->f->is_fifo ? (S_IFIFO | 0600) : (S_IFREG | 0644) ;
	st->st_size = d->f->is_fifo ? 0 : (off_t) d->f->data.size () ;
	st->st_nlink = 1 ; st->st_blksize = 4096 ;
	tr_io (IO_LEN, 0, 0, st->st_size, 0) ;
	return 0 ;
}

extern "C" int __wrap_ftruncate (int fd, off_t len)
{	if (pt_on ()) return __real_ftruncate (fd, len) ;
	if (!sim_active () || !(in_lib () || is_sim_fd (fd)))
		return __real_ftruncate (fd, len) ;
	Fault *f = in_lib () ? g_os->io_event (IO_TRUNC, false) : nullptr ;
	SimFd *d = get_fd (fd) ;
	if (!d || (d->flags & O_ACCMODE) == O_RDONLY || d->f->is_fifo) { errno = EBADF ; tr_io (IO_TRUNC, len, 0, -1, 0) ; return -1 ; }
	if (f && (f->kind == F_FD_FTRUNC_FAIL || f->kind == F_FD_EBADF)) { errno = EIO ; tr_io (IO_TRUNC, len, 0, -1, f->kind) ; return -1 ; }
	if (len < 0 || len > (off_t) 1 << 26) { errno = EINVAL ; g_os->st.odd_requests ++ ; return -1 ; }
	d->f->data.resize ((size_t) len, 0) ;
	tr_io (IO_TRUNC, len, 0, 0, 0) ;
	return 0 ;
}

extern "C" int __wrap_fsync (int fd)
{	if (pt_on ()) return __real_fsync (fd) ;
	if (!sim_active () || !(in_lib () || is_sim_fd (fd)))
		return __real_fsync (fd) ;
	if (in_lib ()) g_os->io_event (IO_SYNC, false) ;
	return get_fd (fd) ? 0 : (errno = EBADF, -1) ;
}

extern "C" int __wrap_access (const char *path, int mode)
{	if (pt_on ()) { std::string rp = pt_path (path) ; return __real_access (rp.c_str (), mode) ; }
	if (!sim_active () || !(in_lib () || is_sim_path (path)))
		return __real_access (path, mode) ;
	std::string p = norm_path (path) ;
	if (p == "/sim/tmp" || p == "/sim/cwd" || p == "/sim") return 0 ;
	if (g_os->ns.count (p)) return 0 ;
	errno = ENOENT ;
	return -1 ;
}

extern "C" int __wrap_remove (const char *path)
{	if (pt_on ()) { std::string rp = pt_path (path) ; return __real_remove (rp.c_str ()) ; }
	if (!sim_active () || !(in_lib () || is_sim_path (path)))
		return __real_remove (path) ;
	std::string p = norm_path (path) ;
	auto it = g_os->ns.find (p) ;
	if (it == g_os->ns.end ()) { errno = ENOENT ; return -1 ; }
	g_os->ns.erase (it) ;
	return 0 ;
}

// ---- temp files through stdio: fopencookie over a SimFile

struct TmpCookie { SimFileP f ; int64_t off ; int fd ; } ;

static ssize_t ck_read (void *c, char *buf, size_t n)
{	TmpCookie *t = (TmpCookie *) c ;
	if (g_os && g_os->in_lib) g_os->io_event (IO_READ, false) ;
	int64_t avail = (int64_t) t->f->data.size () - t->off ;
	if (avail < 0) avail = 0 ;
	int64_t got = (int64_t) n < avail ? (int64_t) n : avail ;
	if (got > 0) memcpy (buf, t->f->data.data () + t->off, (size_t) got) ;
	t->off += got ;
	return got ;
}
static ssize_t ck_write (void *c, const char *buf, size_t n)
{	TmpCookie *t = (TmpCookie *) c ;
	Fault *f = (g_os && g_os->in_lib) ? g_os->io_event (IO_WRITE, false) : nullptr ;
	if (f && (f->kind == F_TMP_WRITE_SHORT || f->kind == F_FD_WRITE_EIO || f->kind == F_FD_WRITE_ENOSPC)) return 0 ;	// 0 = error for cookie writers
	file_write_at (t->f.get (), t->off, buf, (int64_t) n) ;
	t->off += n ;
	return n ;
}
static int ck_seek (void *c, off64_t *off, int whence)
{	TmpCookie *t = (TmpCookie *) c ;
	int64_t base = whence == SEEK_SET ? 0 : whence == SEEK_CUR ? t->off : (int64_t) t->f->data.size () ;
	int64_t np = base + *off ;
	if (np < 0) return -1 ;
	t->off = np ; *off = np ;
	return 0 ;
}
static int ck_close (void *c)
{	TmpCookie *t = (TmpCookie *) c ;
	if (g_os)
	{	auto it = g_os->fds.find (t->fd) ;
		if (it != g_os->fds.end ()) { it->second.is_open = false ; it->second.close_count ++ ; it->second.closed_by_lib = true ; }
	}
	delete t ;
	return 0 ;
}

extern "C" FILE *__wrap_fopen (const char *path, const char *mode)
{	if (pt_on ()) { std::string rp = pt_path (path) ; return __real_fopen (rp.c_str (), mode) ; }
	if (!sim_active () || !(in_lib () || is_sim_path (path)))
		return __real_fopen (path, mode) ;
	std::string p = norm_path (path) ;
	Fault *f = in_lib () ? g_os->io_event (IO_OPEN, false) : nullptr ;
	if (f && (f->kind == F_OPEN_FAIL)) { errno = EACCES ; return nullptr ; }
	bool wr = strchr (mode, 'w') != nullptr ;
	SimFileP sf = g_os->file (p, wr) ;
	if (!sf) { errno = ENOENT ; return nullptr ; }
	if (wr) sf->data.clear () ;
	TmpCookie *t = new TmpCookie { sf, 0, 0 } ;
	t->fd = g_os->open_fd (sf, O_RDWR, in_lib ()) ;
	g_os->fds [t->fd].is_tmp = true ;
	cookie_io_functions_t fn = { ck_read, ck_write, ck_seek, ck_close } ;
	FILE *fp = fopencookie (t, mode, fn) ;
	if (!fp) { delete t ; return nullptr ; }
	return fp ;
}

// ---- clock

extern "C" time_t __wrap_time (time_t *t)
{	if (!sim_active () || !in_lib ()) return __real_time (t) ;
	time_t v = (time_t) g_os->now () ;
	if (t) *t = v ;
	return v ;
}
extern "C" int __wrap_gettimeofday (struct timeval *tv, void *tz)
{	if (!sim_active () || !in_lib ()) return __real_gettimeofday (tv, tz) ;
	if (tv) { tv->tv_sec = (time_t) g_os->now () ; tv->tv_usec = 0 ; }
	return 0 ;
}

// ---- allocation ledger (pass-through to the sanitizer allocator)

extern "C" void *__wrap_malloc (size_t n)
{	if (in_lib () && n > (256u << 20)) { errno = ENOMEM ; return nullptr ; }		// see __wrap_realloc
	void *p = __real_malloc (n) ;
	if (p && in_lib ())
	{	g_os->in_lib = false ; g_os->ledger [p] = n ; g_os->lib_allocs ++ ; g_os->lib_alloc_bytes += n ; g_os->in_lib = true ;
		if (g_os->mem_fill >= 0) memset (p, g_os->mem_fill, n) ;
	}
	return p ;
}
extern "C" void *__wrap_calloc (size_t a, size_t b)
{	if (in_lib () && b && a > (256u << 20) / b) { errno = ENOMEM ; return nullptr ; }
	void *p = __real_calloc (a, b) ;
	if (p && in_lib ()) { g_os->in_lib = false ; g_os->ledger [p] = a * b ; g_os->lib_allocs ++ ; g_os->lib_alloc_bytes += a * b ; g_os->in_lib = true ; }
	return p ;
}
extern "C" void *__wrap_realloc (void *o, size_t n)
{	bool lib = in_lib () ;
	// the simulated machine hands no single block of more than 256 MiB to the library (a parser that doubles a table for ever
	// otherwise takes the whole sandbox with it before the watchdog sees it)
	if (lib && n > (256u << 20)) { errno = ENOMEM ; return nullptr ; }
	size_t old_n = 0 ;
	if (lib && o) { auto it = g_os->ledger.find (o) ; if (it != g_os->ledger.end ()) old_n = it->second ; else old_n = n ; }
	void *p = __real_realloc (o, n) ;
	if (lib)
	{	g_os->in_lib = false ;
		if (p && g_os->mem_fill >= 0 && n > old_n) memset ((char *) p + old_n, g_os->mem_fill, n - old_n) ;
		if (p || n == 0) { if (o) g_os->ledger.erase (o) ; }
		if (p) { g_os->ledger [p] = n ; g_os->lib_allocs ++ ; }
		g_os->in_lib = true ;
	}
	return p ;
}
extern "C" void __wrap_free (void *p)
{	if (p && g_os && !g_os->ledger.empty ())
	{	bool lib = g_os->in_lib ; g_os->in_lib = false ;
		g_os->ledger.erase (p) ;
		g_os->in_lib = lib ;
	}
	__real_free (p) ;
}

// ---- library chatter on stdout is swallowed (verdicts travel on a dedicated fd)

extern "C" int __wrap_printf (const char *fmt, ...)
{	if (in_lib () && g_os->swallow_stdout) { g_os->chatter ++ ; return 0 ; }
	va_list ap ; va_start (ap, fmt) ; int r = vprintf (fmt, ap) ; va_end (ap) ; return r ;
}
extern "C" int __wrap_puts (const char *s)
{	if (in_lib () && g_os->swallow_stdout) { g_os->chatter ++ ; return 0 ; }
	return __real_puts (s) ;
}
extern "C" int __wrap_putchar (int c)
{	if (in_lib () && g_os->swallow_stdout) { g_os->chatter ++ ; return c ; }
	return __real_putchar (c) ;
}
