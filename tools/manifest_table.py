# checks beyond the four written out in mkmanifest.py; PENDING = designed but not built yet
CHECKS = {
 'C15': ('fault_enumeration', 'fault-point enumeration: every I/O step of the fault-free run of the faulted phase x applicable fault kinds x {single-shot, persistent}; quick samples points per plan without replacement, thorough enumerates; containment oracle (step budget, return ranges, position deltas, ASan, resource audit, failed open, accepted data not corrupted)', '3 C15'),
 'C16': ('exploration', 'resource audit at the end of every plan: allocation ledger (link-time malloc seam), simulated descriptor table, simulated namespace (temp files), close return value; histories biased to failing opens at every parse depth, allocating commands, ALAC temp files, SD2 resource forks, injected faults', '3 C16'),
 'C11': ('fault_enumeration', 'crash-point enumeration: after every header update (explicit or automatic) the store is copied and parsed by an independent recovery reader; frames/params/prefix/eof compared with the model; differential run without updates for audio.unchanged', '3 C11'),
 'C03': ('exploration', 'storage-corruption faults (bit rot, torn/zeroed/misdirected sectors, field overwrites, truncation, junk) injected into valid images of every writable format, then seeded API histories over VIO / descriptor / path / FIFO routes under ASan, invariant hook and the simulated-I/O step budget', '3 C03'),
}
PENDING = {p: 'check designed in DESIGN.md section 3 but not built yet in this revision (to be claimed when its profile exists)' for p in
           ['C07', 'C08', 'C09', 'C12', 'C13', 'C14', 'C17', 'C18', 'C19']}
