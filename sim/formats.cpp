#include "formats.hpp"
#include <cstring>
#include <map>

int stype_from (const std::string &s)
{	if (s == "short") return T_SHORT ;
	if (s == "int") return T_INT ;
	if (s == "float") return T_FLOAT ;
	if (s == "double") return T_DOUBLE ;
	return T_RAW ;
}

std::string major_name (int major)
{	switch (major & SF_FORMAT_TYPEMASK)
	{	case SF_FORMAT_WAV : return "WAV" ; case SF_FORMAT_AIFF : return "AIFF" ; case SF_FORMAT_AU : return "AU" ;
		case SF_FORMAT_RAW : return "RAW" ; case SF_FORMAT_PAF : return "PAF" ; case SF_FORMAT_SVX : return "SVX" ;
		case SF_FORMAT_NIST : return "NIST" ; case SF_FORMAT_VOC : return "VOC" ; case SF_FORMAT_IRCAM : return "IRCAM" ;
		case SF_FORMAT_W64 : return "W64" ; case SF_FORMAT_MAT4 : return "MAT4" ; case SF_FORMAT_MAT5 : return "MAT5" ;
		case SF_FORMAT_PVF : return "PVF" ; case SF_FORMAT_XI : return "XI" ; case SF_FORMAT_HTK : return "HTK" ;
		case SF_FORMAT_SDS : return "SDS" ; case SF_FORMAT_AVR : return "AVR" ; case SF_FORMAT_WAVEX : return "WAVEX" ;
		case SF_FORMAT_SD2 : return "SD2" ; case SF_FORMAT_FLAC : return "FLAC" ; case SF_FORMAT_CAF : return "CAF" ;
		case SF_FORMAT_WVE : return "WVE" ; case SF_FORMAT_OGG : return "OGG" ; case SF_FORMAT_MPC2K : return "MPC2K" ;
		case SF_FORMAT_RF64 : return "RF64" ; case SF_FORMAT_MPEG : return "MPEG" ;
	}
	char b [32] ; snprintf (b, sizeof (b), "M%06x", major & SF_FORMAT_TYPEMASK) ; return b ;
}

std::string sub_name (int sub)
{	switch (sub & SF_FORMAT_SUBMASK)
	{	case SF_FORMAT_PCM_S8 : return "PCM_S8" ; case SF_FORMAT_PCM_16 : return "PCM_16" ; case SF_FORMAT_PCM_24 : return "PCM_24" ;
		case SF_FORMAT_PCM_32 : return "PCM_32" ; case SF_FORMAT_PCM_U8 : return "PCM_U8" ; case SF_FORMAT_FLOAT : return "FLOAT" ;
		case SF_FORMAT_DOUBLE : return "DOUBLE" ; case SF_FORMAT_ULAW : return "ULAW" ; case SF_FORMAT_ALAW : return "ALAW" ;
		case SF_FORMAT_IMA_ADPCM : return "IMA_ADPCM" ; case SF_FORMAT_MS_ADPCM : return "MS_ADPCM" ; case SF_FORMAT_GSM610 : return "GSM610" ;
		case SF_FORMAT_VOX_ADPCM : return "VOX_ADPCM" ; case SF_FORMAT_NMS_ADPCM_16 : return "NMS_ADPCM_16" ;
		case SF_FORMAT_NMS_ADPCM_24 : return "NMS_ADPCM_24" ; case SF_FORMAT_NMS_ADPCM_32 : return "NMS_ADPCM_32" ;
		case SF_FORMAT_G721_32 : return "G721_32" ; case SF_FORMAT_G723_24 : return "G723_24" ; case SF_FORMAT_G723_40 : return "G723_40" ;
		case SF_FORMAT_DWVW_12 : return "DWVW_12" ; case SF_FORMAT_DWVW_16 : return "DWVW_16" ; case SF_FORMAT_DWVW_24 : return "DWVW_24" ;
		case SF_FORMAT_DWVW_N : return "DWVW_N" ; case SF_FORMAT_DPCM_8 : return "DPCM_8" ; case SF_FORMAT_DPCM_16 : return "DPCM_16" ;
		case SF_FORMAT_VORBIS : return "VORBIS" ; case SF_FORMAT_OPUS : return "OPUS" ;
		case SF_FORMAT_ALAC_16 : return "ALAC_16" ; case SF_FORMAT_ALAC_20 : return "ALAC_20" ; case SF_FORMAT_ALAC_24 : return "ALAC_24" ;
		case SF_FORMAT_ALAC_32 : return "ALAC_32" ;
		case SF_FORMAT_MPEG_LAYER_I : return "MPEG_I" ; case SF_FORMAT_MPEG_LAYER_II : return "MPEG_II" ; case SF_FORMAT_MPEG_LAYER_III : return "MPEG_III" ;
	}
	char b [32] ; snprintf (b, sizeof (b), "S%04x", sub & SF_FORMAT_SUBMASK) ; return b ;
}

static void classify (Fmt &f)
{	int s = f.sub ;
	switch (s)
	{	case SF_FORMAT_PCM_S8 : case SF_FORMAT_PCM_U8 : case SF_FORMAT_DPCM_8 : f.bits = 8 ; break ;
		case SF_FORMAT_PCM_16 : case SF_FORMAT_DPCM_16 : case SF_FORMAT_DWVW_16 : case SF_FORMAT_ALAC_16 : f.bits = 16 ; break ;
		case SF_FORMAT_DWVW_12 : f.bits = 12 ; break ;
		case SF_FORMAT_ALAC_20 : f.bits = 20 ; break ;
		case SF_FORMAT_PCM_24 : case SF_FORMAT_DWVW_24 : case SF_FORMAT_ALAC_24 : f.bits = 24 ; break ;
		case SF_FORMAT_PCM_32 : case SF_FORMAT_ALAC_32 : f.bits = 32 ; break ;
		case SF_FORMAT_FLOAT : f.is_float = true ; break ;
		case SF_FORMAT_DOUBLE : f.is_double = true ; break ;
		default : f.lossy = true ; break ;
	}
	switch (s)
	{	case SF_FORMAT_IMA_ADPCM : case SF_FORMAT_MS_ADPCM : case SF_FORMAT_GSM610 : case SF_FORMAT_VOX_ADPCM :
		case SF_FORMAT_NMS_ADPCM_16 : case SF_FORMAT_NMS_ADPCM_24 : case SF_FORMAT_NMS_ADPCM_32 :
		case SF_FORMAT_G721_32 : case SF_FORMAT_G723_24 : case SF_FORMAT_G723_40 :
			f.block_codec = true ; break ;
		default : break ;
	}
	if (f.major == SF_FORMAT_SDS) f.block_codec = true ;
	if (f.major == SF_FORMAT_PAF && s == SF_FORMAT_PCM_24) f.block_codec = true ;
}

static std::vector<Fmt> build ()
{	std::vector<Fmt> out ;
	int nmaj = 0, nsub = 0 ;
	sf_command (nullptr, SFC_GET_FORMAT_MAJOR_COUNT, &nmaj, sizeof (int)) ;
	sf_command (nullptr, SFC_GET_FORMAT_SUBTYPE_COUNT, &nsub, sizeof (int)) ;
	static const int endians [] = { SF_ENDIAN_FILE, SF_ENDIAN_LITTLE, SF_ENDIAN_BIG, SF_ENDIAN_CPU } ;
	static const char *enames [] = { "FILE", "LITTLE", "BIG", "CPU" } ;
	for (int m = 0 ; m < nmaj ; m++)
	{	SF_FORMAT_INFO mi ; mi.format = m ;
		if (sf_command (nullptr, SFC_GET_FORMAT_MAJOR, &mi, sizeof (mi))) continue ;
		for (int s = 0 ; s < nsub ; s++)
		{	SF_FORMAT_INFO si ; si.format = s ;
			if (sf_command (nullptr, SFC_GET_FORMAT_SUBTYPE, &si, sizeof (si))) continue ;
			for (int e = 0 ; e < 4 ; e++)
			{	SF_INFO info ; memset (&info, 0, sizeof (info)) ;
				info.format = (mi.format & SF_FORMAT_TYPEMASK) | (si.format & SF_FORMAT_SUBMASK) | endians [e] ;
				info.samplerate = 8000 ;
				int okch = 0 ;
				for (int ch = 1 ; ch <= 2 && !okch ; ch++) { info.channels = ch ; if (sf_format_check (&info)) okch = ch ; }
				if (!okch) continue ;
				Fmt f ;
				f.format = info.format ; f.major = info.format & SF_FORMAT_TYPEMASK ; f.sub = info.format & SF_FORMAT_SUBMASK ; f.endian = endians [e] ;
				f.mname = major_name (f.major) ; f.sname = sub_name (f.sub) ; f.ename = enames [e] ;
				f.name = f.mname + "/" + f.sname + "/" + f.ename ;
				classify (f) ;
				// largest accepted channel count (pure predicate, binary search on a monotone range)
				int lo = okch, hi = 1025 ;
				while (lo + 1 < hi)
				{	int mid = (lo + hi) / 2 ; info.channels = mid ;
					if (sf_format_check (&info)) lo = mid ; else hi = mid ;
				}
				f.max_ch = lo ;
				out.push_back (f) ;
			}
		}
	}
	return out ;
}

const std::vector<Fmt> &all_formats ()
{	static std::vector<Fmt> v = build () ;
	return v ;
}
const Fmt *find_format (int format)
{	for (auto &f : all_formats ()) if (f.format == format) return &f ;
	// tolerate missing endian bits
	for (auto &f : all_formats ()) if ((f.format & (SF_FORMAT_TYPEMASK | SF_FORMAT_SUBMASK)) == (format & (SF_FORMAT_TYPEMASK | SF_FORMAT_SUBMASK))) return &f ;
	return nullptr ;
}
const Fmt *find_format_name (const std::string &name)
{	for (auto &f : all_formats ()) if (f.name == name) return &f ;
	return nullptr ;
}

int lossless_lowzero (const Fmt &f, int T)
{	// IEEE encodings also carry integers exactly under the default scaling: a double holds every 32-bit integer, a float every
	// 16-bit one and every 32-bit one whose low 8 bits are zero (24 significant bits)
	if (f.is_float) return (T == T_FLOAT || T == T_SHORT) ? 0 : T == T_INT ? 8 : -1 ;
	if (f.is_double) return T == T_DOUBLE || T == T_FLOAT || T == T_SHORT || T == T_INT ? 0 : -1 ;
	if (f.bits == 0) return -1 ;
	if (T == T_SHORT) return f.bits >= 16 ? 0 : 16 - f.bits ;
	if (T == T_INT) return 32 - f.bits ;
	return -1 ;
}

static int wavlike_blockalign (int64_t rate_ch)
{	if (rate_ch < 12000) return 256 ;
	if (rate_ch < 23000) return 512 ;
	if (rate_ch < 44000) return 1024 ;
	return 2048 ;
}

int block_frames (const Fmt &f, int ch, int rate)
{	bool wavlike = f.major == SF_FORMAT_WAV || f.major == SF_FORMAT_W64 || f.major == SF_FORMAT_WAVEX || f.major == SF_FORMAT_RF64 ;
	switch (f.sub)
	{	case SF_FORMAT_IMA_ADPCM :
			if (f.major == SF_FORMAT_AIFF) return 64 ;
			{ int ba = wavlike_blockalign ((int64_t) rate * ch) ; return 2 * (ba - 4 * ch) / ch + 1 ; }
		case SF_FORMAT_MS_ADPCM :
			{ int ba = wavlike_blockalign ((int64_t) rate * ch) ; return 2 + 2 * (ba - 7 * ch) / ch ; }
		case SF_FORMAT_GSM610 : return wavlike ? 320 : 160 ;
		case SF_FORMAT_G721_32 : case SF_FORMAT_G723_24 : case SF_FORMAT_G723_40 : return 120 ;
		case SF_FORMAT_NMS_ADPCM_16 : case SF_FORMAT_NMS_ADPCM_24 : case SF_FORMAT_NMS_ADPCM_32 : return 160 ;
		case SF_FORMAT_VOX_ADPCM : return 2 ;
		default : break ;
	}
	if (f.major == SF_FORMAT_PAF && f.sub == SF_FORMAT_PCM_24) return 10 ;
	if (f.major == SF_FORMAT_SDS) return f.sub == SF_FORMAT_PCM_S8 ? 60 : f.sub == SF_FORMAT_PCM_16 ? 40 : 30 ;
	return 1 ;
}

bool container_counts_frames (const Fmt &f)
{	switch (f.major)
	{	case SF_FORMAT_AIFF : case SF_FORMAT_CAF : case SF_FORMAT_SDS : case SF_FORMAT_XI : case SF_FORMAT_AVR : case SF_FORMAT_HTK :
		case SF_FORMAT_SVX : case SF_FORMAT_MAT4 : case SF_FORMAT_MAT5 : case SF_FORMAT_VOC : case SF_FORMAT_NIST : case SF_FORMAT_PVF :
			return true ;
	}
	return false ;
}

bool pad_frame_possible (const Fmt &f, int ch, int64_t N)
{	// one-byte-per-sample encodings with odd byte total in IFF-style containers
	bool one_byte = f.sub == SF_FORMAT_PCM_S8 || f.sub == SF_FORMAT_PCM_U8 || f.sub == SF_FORMAT_ULAW || f.sub == SF_FORMAT_ALAW || f.sub == SF_FORMAT_DPCM_8 ;
	bool iff = f.major == SF_FORMAT_AIFF || f.major == SF_FORMAT_SVX || f.major == SF_FORMAT_WAV || f.major == SF_FORMAT_WAVEX || f.major == SF_FORMAT_RF64 ;
	return one_byte && iff && ((N * ch) & 1) ;
}

int64_t rate_model (const Fmt &f, int64_t rate, int ch)
{	switch (f.major)
	{	case SF_FORMAT_WAV : case SF_FORMAT_WAVEX : case SF_FORMAT_RF64 : case SF_FORMAT_W64 : case SF_FORMAT_AU : case SF_FORMAT_PAF :
		case SF_FORMAT_AVR : case SF_FORMAT_AIFF : case SF_FORMAT_CAF : case SF_FORMAT_MAT4 : case SF_FORMAT_MAT5 : case SF_FORMAT_NIST :
		case SF_FORMAT_PVF : case SF_FORMAT_SD2 :
			return rate ;
		case SF_FORMAT_SVX : case SF_FORMAT_MPC2K : return rate <= 65535 ? rate : -1 ;
		case SF_FORMAT_IRCAM : return rate < (1 << 24) ? rate : -1 ;
		case SF_FORMAT_HTK : return (rate <= 10000000 && rate > 0) ? 10000000 / (10000000 / rate) : -1 ;
		case SF_FORMAT_SDS :
			if (rate <= 0 || rate > 1000000000 || 1000000000 / rate >= (1 << 21)) return -1 ;
			return 1000000000 / (1000000000 / rate) ;
		case SF_FORMAT_VOC : return -2 ;		// divisor forms: no closed-form model, rate not asserted
		case SF_FORMAT_XI : return 44100 ;
		case SF_FORMAT_WVE : return 8000 ;
		case SF_FORMAT_RAW : return rate ;		// caller supplies it at open
	}
	(void) ch ;
	return -1 ;
}

bool has_header (const Fmt &f) { return f.major != SF_FORMAT_RAW ; }
bool peak_capable (const Fmt &f)
{	return (f.is_float || f.is_double) && (f.major == SF_FORMAT_WAV || f.major == SF_FORMAT_WAVEX || f.major == SF_FORMAT_AIFF || f.major == SF_FORMAT_CAF || f.major == SF_FORMAT_RF64) ;
}
bool chunk_capable (const Fmt &f)
{	return f.major == SF_FORMAT_WAV || f.major == SF_FORMAT_WAVEX || f.major == SF_FORMAT_RF64 || f.major == SF_FORMAT_AIFF || f.major == SF_FORMAT_CAF ;
}
bool embed_capable (const Fmt &f) { return f.major == SF_FORMAT_WAV || f.major == SF_FORMAT_WAVEX || f.major == SF_FORMAT_AIFF || f.major == SF_FORMAT_AU ; }
bool needs_path_route (const Fmt &f) { return f.major == SF_FORMAT_SD2 ; }

bool valid_channels (const Fmt &f, int ch, int rate)
{	SF_INFO info ; memset (&info, 0, sizeof (info)) ;
	info.format = f.format ; info.channels = ch ; info.samplerate = rate ;
	return sf_format_check (&info) != 0 ;
}
