// Fault profiles: C15 (I/O failures contained; fault-point enumeration), C16 (resource audit),
// C11 (crash images after header updates; crash-point enumeration), C03 (storage corruption).
#include "profiles.hpp"
#include <algorithm>

static J mkop (const char *op) { J j = J::obj () ; j ["op"] = op ; return j ; }
void note_current_plan (const J &plan) ;		// main.cpp: lets the supervisor name the exact sub-plan a dead worker was running

static std::vector<const Fmt *> file_endian_formats ()
{	std::vector<const Fmt *> v ;
	for (auto &f : all_formats ()) if (f.endian == SF_ENDIAN_FILE) v.push_back (&f) ;
	return v ;
}

static void add_writes (GenCtx &g, J &ops, const Fmt &f, int ch, int rate, int n, int T, int64_t cap)
{	int B = block_frames (f, ch, rate) ;
	for (int k = 0 ; k < n ; k++)
	{	J w = mkop ("write") ; w ["T"] = stype_name (T < 0 ? (int) g.rng.below (4) : T) ; if (g.rng.chance (0.5)) w ["fr"] = 1 ;
		w ["n"] = (long long) g.pick_frames (B, ch, cap) ;
		ops.push (w) ;
	}
}

// random metadata subset (strings, bext, cart, cues, instrument, chunks, channel map) placed before the audio
static void add_metadata (GenCtx &g, J &ops, const Fmt &f, double p, bool strings_only = false)
{	static const int stypes [] = { SF_STR_TITLE, SF_STR_COPYRIGHT, SF_STR_SOFTWARE, SF_STR_ARTIST, SF_STR_COMMENT, SF_STR_DATE, SF_STR_ALBUM, SF_STR_LICENSE, SF_STR_TRACKNUMBER, SF_STR_GENRE } ;
	if (g.rng.chance (p)) for (int k = 0, n = (int) g.rng.range (1, 6) ; k < n ; k++)
	{	J s = mkop ("setstr") ; s ["type"] = stypes [g.rng.below (10)] ; s ["len"] = (long long) g.rng.pick<int64_t> ({ 1, 2, 5, 8, 31, 127, 128, 255, 256, 1000 }) ; s ["stream"] = (long long) g.rng.below (1000) ;
		if (g.rng.chance (0.2)) s ["cls"] = "utf8" ;
		ops.push (s) ;
	}
	if (strings_only) return ;
	if (g.rng.chance (p * 0.6)) { J b = mkop ("setbext") ; b ["fill"] = (int) g.rng.below (3) ; b ["hist"] = (long long) g.rng.pick<int64_t> ({ 0, 1, 2, 100, 255, 256, 257, 1000, 4000 }) ; b ["stream"] = (long long) g.rng.below (1000) ; if (g.rng.chance (0.3)) b ["cls"] = "crlf" ; ops.push (b) ; }
	if (g.rng.chance (p * 0.5)) { J c = mkop ("setcart") ; c ["fill"] = (int) g.rng.below (3) ; c ["tag"] = (long long) g.rng.pick<int64_t> ({ 0, 1, 3, 100, 255, 256, 1000, 4000 }) ; c ["stream"] = (long long) g.rng.below (1000) ; ops.push (c) ; }
	if (g.rng.chance (p * 0.5)) { J c = mkop ("setcues") ; c ["count"] = (long long) g.rng.pick<int64_t> ({ 0, 1, 2, 3, 10, 50, 99, 100, 101, 150, 300 }) ; c ["stream"] = (long long) g.rng.below (1000) ; ops.push (c) ; }
	if (g.rng.chance (p * 0.5)) { J c = mkop ("setinstr") ; c ["loops"] = (long long) g.rng.pick<int64_t> ({ 0, 1, 2, 8, 16 }) ; c ["stream"] = (long long) g.rng.below (1000) ; ops.push (c) ; }
	if (g.rng.chance (p * 0.4)) { J c = mkop ("setchanmap") ; c ["stream"] = (long long) g.rng.below (1000) ; ops.push (c) ; }
	if (chunk_capable (f) && g.rng.chance (p * 0.7)) for (int k = 0, n = (int) g.rng.pick<int> ({ 1, 2, 3, 5, 19, 21, 31, 33 }) ; k < n ; k++)
	{	J c = mkop ("setchunk") ; static const char *ids [] = { "tSt0", "Test", "abcd", "zzzz", "cue2", "ZyXw" } ;		// short / reserved ids belong to the C13 profile
		c ["id"] = ids [g.rng.below (6)] ; c ["len"] = (long long) g.rng.pick<int64_t> ({ 0, 1, 2, 3, 4, 5, 17, 100, 1000 }) ; c ["stream"] = (long long) g.rng.below (1000) ;
		ops.push (c) ;
	}
}

static void add_getters (GenCtx &g, J &ops, double p)
{	if (g.rng.chance (p)) ops.push (mkop ("getstr")) ;
	if (g.rng.chance (p)) ops.push (mkop ("getbext")) ;
	if (g.rng.chance (p)) ops.push (mkop ("getcart")) ;
	if (g.rng.chance (p)) ops.push (mkop ("getcues")) ;
	if (g.rng.chance (p)) ops.push (mkop ("getinstr")) ;
	if (g.rng.chance (p)) ops.push (mkop ("getchanmap")) ;
	if (g.rng.chance (p)) { J i = mkop ("iterchunks") ; i ["variant"] = (int) g.rng.below (4) ; ops.push (i) ; }
	if (g.rng.chance (p * 0.5)) { J i = mkop ("iterchunks") ; i ["id"] = "tSt0" ; i ["variant"] = (int) g.rng.below (4) ; ops.push (i) ; }
}

static const char *k_queries [] = { "calc_max", "calc_norm_max", "calc_max_all", "calc_norm_max_all", "get_max", "get_max_all", "get_info", "get_log", "get_norm_double",
	"get_norm_float", "get_clipping", "get_embed", "get_loop", "needs_endswap", "get_ambisonic", "byterate", "error" } ;

// ------------------------------------------------------------------------------------------ C15

static J gen_c15 (uint64_t seed, uint64_t idx)
{	static std::vector<const Fmt *> fmts = file_endian_formats () ;
	J plan = plan_skeleton ("C15", seed, idx) ;
	GenCtx g (sub_seed (seed, "C15", idx)) ;
	const Fmt &f = *fmts [(idx / 4) % fmts.size ()] ;
	int cls = (int) (idx % 4) ;		// 0 W, 1 R, 2 RW, 3 O
	int rate = g.pick_rate (f, false) ;
	int ch = g.rng.chance (0.7) ? (valid_channels (f, 1, rate) ? 1 : 2) : g.pick_channels (f, rate) ;
	if (ch > 8) ch = f.max_ch >= 2 ? 2 : 1 ;
	if (!valid_channels (f, ch, rate)) ch = g.pick_channels (f, rate) ;
	bool fdroute = !needs_path_route (f) && g.rng.chance (0.3) ;
	std::string route = needs_path_route (f) ? "path" : fdroute ? "fd" : "vio" ;
	J &cfg = plan ["cfg"] ;
	cfg ["fmt"] = f.name ; cfg ["ch"] = ch ; cfg ["sr"] = rate ; cfg ["route"] = route ;
	DataDesc d ; d.cls = g.rng.chance (0.5) ? "noise" : "sine" ; d.stream = (int64_t) g.rng.below (100) ;
	cfg ["data"] = data_desc_to (d) ;
	int T = (int) g.rng.below (4) ;
	cfg ["T"] = stype_name (T) ;
	static const char *cn [] = { "W", "R", "RW", "O" } ;
	cfg ["class"] = cn [cls] ;
	J ops = J::arr () ;
	int64_t cap = 1500 / ch + 4 ;
	if (cls != 0)
	{	// preparation phase (never faulted): a valid image
		J o = mkop ("open") ; o ["mode"] = "w" ; ops.push (o) ;
		if (cls == 3) add_metadata (g, ops, f, 0.5) ;
		add_writes (g, ops, f, ch, rate, (int) g.rng.range (1, 3), T, cap) ;
		{	// block codecs with blocks longer than the usual request cap: every other plan stores more than two blocks, so that the
			// faulted phase crosses block boundaries (a failed block read in the middle of the stream, not only at its start)
			int B = block_frames (f, ch, rate) ;
			if (B > 1 && 2 * (int64_t) B + 9 > cap && (2 * (int64_t) B + 9) * ch <= 24000 && g.rng.chance (0.5))
			{	J w = mkop ("write") ; w ["T"] = stype_name (T) ; w ["fr"] = 1 ; w ["n"] = (long long) (2 * B + 9) ; ops.push (w) ;
				cap = 2 * (int64_t) B + 9 + cap ;
			}
		}
		ops.push (mkop ("close")) ;
		if (cls == 3 && g.rng.chance (0.5))
		{	J c = mkop ("corrupt") ; J ed = J::arr () ;
			J e = J::obj () ; e ["kind"] = g.rng.chance (0.5) ? "flip" : "truncate" ; e ["off"] = (long long) g.rng.below (4096) ; e ["bit"] = (int) g.rng.below (8) ; e ["len"] = (long long) g.rng.below (4096) ;
			e ["region"] = g.rng.chance (0.7) ? "head" : "any" ;
			ed.push (e) ; c ["edits"] = ed ; ops.push (c) ;
		}
	}
	cfg ["first_fault_op"] = (long long) ops.size () ;
	if (cls == 0)
	{	J o = mkop ("open") ; o ["mode"] = "w" ; ops.push (o) ;
		if (g.rng.chance (0.3)) add_metadata (g, ops, f, 0.4) ;
		add_writes (g, ops, f, ch, rate, 2, T, cap) ;
		if (has_header (f) && g.rng.chance (0.5)) { J c = mkop ("cmd") ; c ["id"] = "update_header" ; ops.push (c) ; }
		add_writes (g, ops, f, ch, rate, 1, T, cap) ;
		ops.push (mkop ("close")) ;
	}
	else if (cls == 1)
	{	J o = mkop ("open") ; o ["mode"] = "r" ; o ["expect"] = "any" ; ops.push (o) ;
		int Bf = block_frames (f, ch, rate) ;
		bool aligned = Bf > 1 && g.rng.chance (0.3) ;		// whole blocks, no seek: the next call starts exactly where a block has to be fetched
		J r1 = mkop ("read") ; r1 ["T"] = stype_name (T) ; r1 ["n"] = (long long) (aligned ? Bf : g.pick_frames (Bf, ch, cap)) ; if (aligned) r1 ["fr"] = 1 ; ops.push (r1) ;
		if (!aligned) { J s = mkop ("seek") ; s ["off"] = (long long) g.rng.below (64) ; s ["whence"] = 0 ; ops.push (s) ; }
		J r2 = mkop ("read") ; r2 ["T"] = stype_name ((int) g.rng.below (4)) ; r2 ["fr"] = 1 ; r2 ["n"] = (long long) g.pick_frames (block_frames (f, ch, rate), ch, cap) ; ops.push (r2) ;
		if (g.rng.chance (0.3)) add_getters (g, ops, 0.3) ;
		J r3 = mkop ("read") ; r3 ["T"] = stype_name (T) ; r3 ["fr"] = 1 ; r3 ["n"] = (long long) (3 * cap) ; ops.push (r3) ;
		// one more call after the long read: a call that starts where an earlier one gave up (persistent faults, end of a truncated stream)
		J r4 = mkop ("read") ; r4 ["T"] = stype_name ((int) g.rng.below (4)) ; r4 ["n"] = (long long) g.rng.range (1, 9) * ch ; ops.push (r4) ;
		ops.push (mkop ("close")) ;
	}
	else if (cls == 2)
	{	J o = mkop ("open") ; o ["mode"] = "rw" ; o ["expect"] = "any" ; ops.push (o) ;
		int nrw = (int) g.rng.range (3, 7) ;
		for (int k = 0 ; k < nrw ; k++)
		{	uint64_t q = g.rng.below (100) ;
			if (q < 35) { J w = mkop ("write") ; w ["T"] = stype_name (T) ; if (g.rng.chance (0.5)) w ["fr"] = 1 ; w ["n"] = (long long) g.rng.range (1, 80) ; ops.push (w) ; }
			else if (q < 62) { J r1 = mkop ("read") ; r1 ["T"] = stype_name (T) ; r1 ["fr"] = 1 ; r1 ["n"] = (long long) g.rng.range (1, 120) ; ops.push (r1) ; }
			else if (q < 70 && route != "vio") { J c = mkop ("cmd") ; c ["id"] = "truncate" ; c ["arg"] = (long long) g.rng.below (200) ; ops.push (c) ; }
			else
			{	J s = mkop ("seek") ; int wh = (int) g.rng.below (3) ; s ["whence"] = wh ; s ["flag"] = (int) g.rng.pick<int> ({ 0, SFM_READ, SFM_WRITE, SFM_WRITE }) ;
				s ["off"] = (long long) (wh == 2 ? -(int64_t) g.rng.below (40) : wh == 1 ? g.rng.range (-20, 20) : (int64_t) g.rng.below (300)) ; ops.push (s) ;
			}
		}
		ops.push (mkop ("close")) ;
	}
	else
	{	J o = mkop ("open") ; o ["mode"] = "r" ; o ["expect"] = "any" ; ops.push (o) ;
		ops.push (mkop ("close")) ;
	}
	J task = J::obj () ; task ["ops"] = ops ;
	plan ["tasks"].push (task) ;
	if (cls == 0 || cls == 2)
	{	// an un-faulted recovery reader (faults are per task) decodes whatever the faulted writer left behind
		J rops = J::arr () ;
		J o = mkop ("open") ; o ["mode"] = "r" ; o ["expect"] = "any" ; o ["file"] = "f0.dat" ; o ["route"] = needs_path_route (f) ? "path" : "vio" ; rops.push (o) ;
		J rd = mkop ("read") ; rd ["T"] = stype_name (T) ; rd ["fr"] = 1 ; rd ["n"] = (long long) (4 * cap + 400) ; rd ["keep"] = 1 ; rops.push (rd) ;
		rops.push (mkop ("close")) ;
		J t1 = J::obj () ; t1 ["ops"] = rops ; plan ["tasks"].push (t1) ;
		J sched = J::arr () ; for (size_t k = 0 ; k < ops.size () ; k++) sched.push (0) ; for (int k = 0 ; k < 3 ; k++) sched.push (1) ;
		plan ["sched"] = sched ;
	}
	cfg ["enumerate"] = 1 ;
	// quick: 6 sampled fault points per plan. thorough: 24, and every 8th plan enumerates all of its fault points (capped at 3000)
	cfg ["sample"] = g_thorough ? ((idx / 16 + idx) % 8 == 3 ? 0 : 24) : 6 ;		// spread over workers (which take indices modulo their number)
	if (g_thorough) cfg ["sample_cap"] = 3000 ;
	return plan ;
}

struct FaultPoint { int op, io, kind ; int64_t arg ; bool persistent ; } ;

static void kinds_for (int cls, bool vio, std::vector<std::pair<int, int64_t>> &out)
{	if (vio)
	{	switch (cls)
		{	case IO_READ : out.push_back ({ F_VIO_READ_ZERO, 0 }) ; out.push_back ({ F_VIO_READ_SHORT, 0 }) ; out.push_back ({ F_VIO_READ_SHORT, 1 }) ; break ;
			case IO_WRITE : out.push_back ({ F_VIO_WRITE_ZERO, 0 }) ; out.push_back ({ F_VIO_WRITE_SHORT, 0 }) ; out.push_back ({ F_VIO_WRITE_SHORT, 1 }) ; break ;
			case IO_SEEK : out.push_back ({ F_VIO_SEEK_FAIL, 0 }) ; out.push_back ({ F_VIO_SEEK_WRONG, 1 }) ; out.push_back ({ F_VIO_SEEK_WRONG, -1 }) ; break ;
			case IO_TELL : out.push_back ({ F_VIO_TELL_WRONG, 1 }) ; out.push_back ({ F_VIO_TELL_WRONG, -3 }) ; break ;
			case IO_LEN : out.push_back ({ F_VIO_LEN_SMALL, 0 }) ; out.push_back ({ F_VIO_LEN_SMALL, -1 }) ; out.push_back ({ F_VIO_LEN_BIG, 0 }) ;
				out.push_back ({ F_VIO_LEN_BIG, 0x7fffffffLL }) ; out.push_back ({ F_VIO_LEN_BIG, 1LL << 40 }) ; out.push_back ({ F_VIO_LEN_BIG, 1LL << 62 }) ; break ;
		}
	}
	else
	{	switch (cls)
		{	case IO_READ : out.push_back ({ F_FD_READ_EIO, 0 }) ; out.push_back ({ F_FD_EBADF, 0 }) ; break ;
			case IO_WRITE : out.push_back ({ F_FD_WRITE_EIO, 0 }) ; out.push_back ({ F_FD_WRITE_ENOSPC, 0 }) ; out.push_back ({ F_FD_WRITE_ENOSPC, 7 }) ; out.push_back ({ F_TMP_WRITE_SHORT, 0 }) ; break ;
			case IO_SEEK : out.push_back ({ F_FD_LSEEK_FAIL, 0 }) ; break ;
			case IO_LEN : out.push_back ({ F_FD_FSTAT_FAIL, 0 }) ; break ;
			case IO_TRUNC : out.push_back ({ F_FD_FTRUNC_FAIL, 0 }) ; break ;
			case IO_CLOSE : out.push_back ({ F_FD_CLOSE_FAIL, 0 }) ; break ;
			case IO_OPEN : out.push_back ({ F_OPEN_FAIL, 0 }) ; break ;
		}
	}
}

static const std::map<std::string, std::string> &owned_c15 ()
{	static const std::map<std::string, std::string> o = {
		{ "read.range", "ret.range" }, { "write.range", "ret.range" }, { "seek.ret", "ret.range" }, { "read.pos", "pos" }, { "write.pos", "pos" },
		{ "audit.heap", "close.heap" }, { "audit.fd", "close.fd" }, { "audit.tmp", "close.tmp" }, { "audit.other", "close.other" },
		{ "fd.not_closed", "close.fd" }, { "fd.double_close", "close.fd" }, { "open.null_no_error", "open.fail" }, { "read.beyond_eof", "ret.range" }, { "budget", "budget" } } ;
	return o ;
}

// "data the I/O layer accepted before the failure is not corrupted by later calls". After the faulted run a recovery reader
// decodes what the writer left behind. Every frame that existed before the faulted op must then hold either the value the
// fault-free run ends with at that position (a later call overwrote it as planned) or the value it had at the instant of the fault
// (decoded from the store snapshot taken when the fault fired) - anything else was corrupted by a later call. Checked for honest
// failures only (zero / short / EIO / ENOSPC transfers, failed seeks): when the I/O layer lies about positions or lengths it is the
// layer itself that misplaces bytes. Frames still held in a partially filled codec block were never handed to the I/O layer.
static void check_store_prefix (Verdict &v, const J &plan, const Result &r, const Result &base, const Fmt &f)
{	std::string cls = plan.at ("cfg").gets ("class") ;
	// read/write handles are left out on purpose: on the pinned tree failed seeks and short header reads are ignored so widely in
	// RDWR mode (header rewrite over the audio, writes at a stale position) that the clause would consist of known findings only
	if (!r.have_fault_snapshot || (cls != "W" && cls != "RW") || plan.at ("faults").size () == 0) return ;
	if (f.sub >= SF_FORMAT_ALAC_16 && f.sub <= SF_FORMAT_ALAC_32) return ;		// assembled at close
	if (f.sub == SF_FORMAT_DWVW_12 || f.sub == SF_FORMAT_DWVW_16 || f.sub == SF_FORMAT_DWVW_24) return ;		// bit packer holds a partial word
	const J &fj = plan.at ("faults") [0] ;
	int kind = fault_from_name (fj.gets ("kind")) ;
	if (!(kind == F_VIO_READ_ZERO || kind == F_VIO_READ_SHORT || kind == F_VIO_WRITE_ZERO || kind == F_VIO_WRITE_SHORT || kind == F_FD_READ_EIO ||
			kind == F_FD_WRITE_EIO || kind == F_FD_WRITE_ENOSPC || kind == F_VIO_SEEK_FAIL || kind == F_FD_LSEEK_FAIL)) return ;
	int fop = (int) fj.geti ("op") ;
	int ch = (int) plan.at ("cfg").geti ("ch", 1) ;
	const J &ops = plan.at ("tasks") [0].at ("ops") ;
	int64_t frames = 0 ;
	for (int k = fop - 1 ; k >= 0 && k < (int) r.transcript [0].size () ; k--) if (r.transcript [0][k].frames >= 0) { frames = r.transcript [0][k].frames ; break ; }
	int B = block_frames (f, ch, (int) plan.at ("cfg").geti ("sr", 8000)) ;
	frames = (frames / B) * B ;
	std::string fopk = fop >= 0 && fop < (int) ops.size () ? ops [fop].gets ("op") : "" ;
	// the one read/write case that is decidable on the pinned tree: a single failed seek inside sf_seek which sf_seek reported (-1).
	// The call failed, so the run must from there on treat stored frames like the same history without that call: a third
	// acceptable value per frame is the one decoded after the plan with the seek taken out.
	bool rw_seek = cls == "RW" && (kind == F_VIO_SEEK_FAIL || kind == F_FD_LSEEK_FAIL) && !fj.geti ("persistent") && fopk == "seek" &&
			fop < (int) r.transcript [0].size () && !r.transcript [0][fop].skipped && r.transcript [0][fop].ret == -1 ;
	if (cls == "RW" && !rw_seek) return ;
	if (cls == "RW" && !(f.sample_granular () && !f.lossy)) return ;
	std::string where = fopk == "write" ? "@audio_write" : fopk == "cmd" ? "@header_update" : fopk == "close" ? "@close" : "@" + fopk ;
	// frames that had reached the I/O layer when the fault fired, counted from the size of the store at that instant (append-only
	// writers, encodings with a fixed number of bytes per block): for these the value to survive is known even when the snapshot
	// cannot be decoded, e.g. at the first header update of a file whose stored header still says "no frames"
	int64_t handed_items = 0 ;
	if (cls == "W")
	{	const std::string path = "/sim/cwd/f0.dat" ;
		auto fs = r.fault_snapshot.find (path) ; auto od = base.dataoffsets.find ("f0.dat") ;
		int64_t blockbytes = f.major == SF_FORMAT_SDS ? 127 : (f.sample_granular () && !f.lossy) ? (int64_t) ch * (f.is_double ? 8 : f.is_float ? 4 : f.bits / 8) : 0 ;
		bool seeks = false ; for (auto &o : ops.a) if (o.gets ("op") == "seek") seeks = true ;
		if (fs != r.fault_snapshot.end () && od != base.dataoffsets.end () && od->second > 0 && blockbytes > 0 && !seeks && (int64_t) fs->second.size () > od->second)
			handed_items = std::min<int64_t> (frames, (((int64_t) fs->second.size () - od->second) / blockbytes) * B) * ch ;
	}
	auto kb = base.kept.find (1), kr = r.kept.find (1) ;
	if (kb == base.kept.end () || kr == r.kept.end () || frames == 0) { v.probes ["store_prefix_not_recoverable"] ++ ; return ; }
	// decode the snapshot taken at the instant of the fault
	J rp = J::obj () ; rp ["profile"] = "C15" ; rp ["seed"] = plan.geti ("seed") ;
	J c2 = J::obj () ; for (const char *k : { "fmt", "ch", "sr", "data", "T" }) if (plan.at ("cfg").has (k)) c2 [k] = plan.at ("cfg").at (k) ;
	c2 ["route"] = needs_path_route (f) ? "path" : "vio" ; rp ["cfg"] = c2 ;
	J tl = J::arr () ; J t0 = J::obj () ; J tops = J::arr () ; t0 ["ops"] = tops ; tl.push (t0) ; tl.push (plan.at ("tasks") [1]) ; rp ["tasks"] = tl ;
	ExecOpts eo ; eo.preload = &r.fault_snapshot ;
	Result rs = execute (rp, eo) ;
	v.absorb (rs) ;
	static const std::vector<uint64_t> none ;
	auto ks = rs.kept.find (1) ;
	const std::vector<uint64_t> &snap = ks == rs.kept.end () ? none : ks->second ;
	std::vector<uint64_t> alt ;
	if (rw_seek)
	{	J np = plan ; np.erase ("faults") ;
		J nop = J::obj () ; nop ["op"] = "nop" ;
		np ["tasks"][0]["ops"][(size_t) fop] = nop ;
		Result rn = execute (np) ;
		v.absorb (rn) ;
		auto ka = rn.kept.find (1) ;
		if (ka != rn.kept.end ()) alt = ka->second ;
		v.probes ["store_prefix_rdwr_failed_seek"] ++ ;
	}
	int64_t items = std::min<int64_t> ({ frames * ch, (int64_t) kr->second.size (), (int64_t) kb->second.size () }) ;
	int64_t compared = 0 ;
	for (int64_t k = 0 ; k < items ; k++)
	{	if (k >= (int64_t) snap.size ())
		{	// the snapshot's own header did not cover this frame yet: only frames known to have been handed over can be judged
			if (k >= handed_items) break ;
			compared ++ ;
			if (kr->second [k] != kb->second [k])
			{	Finding fd ; char b [260] ;
				snprintf (b, sizeof (b), "item %lld (of %lld frames that existed before the fault, %lld items of them in the store at that instant) decodes to 0x%llx after the faulted run; it was written as 0x%llx",
					(long long) k, (long long) frames, (long long) handed_items, (unsigned long long) kr->second [k], (unsigned long long) kb->second [k]) ;
				fd.sig = make_sig_raw ("C15", "store.prefix", f.name, plan.at ("cfg").gets ("route"), fj.gets ("kind"), "changed" + where) ; fd.detail = b ;
				v.findings.push_back (fd) ; return ;
			}
			continue ;
		}
		compared ++ ;
		if (kr->second [k] != kb->second [k] && kr->second [k] != snap [k] && !(k < (int64_t) alt.size () && kr->second [k] == alt [k]))
		{	Finding fd ; char b [260] ;
			snprintf (b, sizeof (b), "item %lld (of %lld frames that existed before the fault) decodes to 0x%llx after the faulted run; fault-free run ends with 0x%llx there, the store at the instant of the fault held 0x%llx",
				(long long) k, (long long) frames, (unsigned long long) kr->second [k], (unsigned long long) kb->second [k], (unsigned long long) snap [k]) ;
			fd.sig = make_sig_raw ("C15", "store.prefix", f.name, plan.at ("cfg").gets ("route"), fj.gets ("kind"), "changed" + where) ; fd.detail = b ;
			v.findings.push_back (fd) ; return ;
		}
	}
	if (compared) v.probes ["store_prefix_checked"] ++ ; else v.probes ["store_prefix_not_recoverable"] ++ ;
}

static Verdict check_c15 (const J &plan)
{	Verdict v ;
	const J &cfg = plan.at ("cfg") ;
	v.fmt = cfg.gets ("fmt") ; v.route = cfg.gets ("route") ;
	v.shape = plan_shape (plan) ;
	const Fmt *f = find_format_name (v.fmt) ;
	if (!f) return v ;
	ExecOpts bo ; bo.record_io = true ;
	J basep = plan ; basep.erase ("faults") ;
	Result base = execute (basep, bo) ;
	v.absorb (base) ;
	if (!cfg.geti ("enumerate"))
	{	// explicit fault list (replay files, shrinker candidates)
		note_current_plan (plan) ;
		Result r = execute (plan) ;
		v.absorb (r) ;
		add_owned (v, "C15", r, owned_c15 ()) ;
		check_store_prefix (v, plan, r, base, *f) ;
		v.nontrivial = r.io.steps > 0 && !r.probes.empty () ;
		return v ;
	}
	// fault points = every I/O step of the fault-free run from first_fault_op on x applicable kinds x {single-shot, persistent}
	int first = (int) cfg.geti ("first_fault_op", 0) ;
	bool vio = v.route == "vio" ;
	std::vector<FaultPoint> pts ;
	for (auto &e : base.io_log)
	{	if (e.op < first) continue ;
		std::vector<std::pair<int, int64_t>> ks ;
		kinds_for (e.cls, e.vio, ks) ;
		for (auto &k : ks) for (int p = 0 ; p < 2 ; p++) pts.push_back (FaultPoint { e.op, e.io, k.first, k.second, p == 1 }) ;
	}
	(void) vio ;
	int64_t total = (int64_t) pts.size () ;
	int64_t want = cfg.geti ("sample", 6) ;
	if (want <= 0 || want > total) want = total ;
	int64_t cap = cfg.geti ("sample_cap", 0) ;
	if (cap > 0 && want > cap) want = cap ;
	bool all_points = want == total ;
	uint64_t s = (uint64_t) plan.geti ("seed") ;
	int64_t covered = 0, fired = 0 ;
	std::set<int64_t> chosen ;
	std::set<std::pair<int, int>> hung ; int64_t skipped_same_hang = 0 ;
	// read/write histories: two of the samples are spent on single failed seeks inside sf_seek calls (the store.prefix case decidable there)
	std::vector<int64_t> seekpts ;
	if (cfg.gets ("class") == "RW" && want < total)
	{	const J &ops0 = plan.at ("tasks") [0].at ("ops") ;
		for (int64_t k = 0 ; k < total ; k++)
		{	const FaultPoint &fp = pts [(size_t) k] ;
			if (!fp.persistent && (fp.kind == F_VIO_SEEK_FAIL || fp.kind == F_FD_LSEEK_FAIL) && fp.op < (int) ops0.size () && ops0 [(size_t) fp.op].gets ("op") == "seek") seekpts.push_back (k) ;
		}
	}
	int64_t extra = seekpts.empty () ? 0 : 2 ;
	for (int64_t j = 0 ; j < want + extra ; j++)
	{	int64_t k = want == total ? j : j >= want ? seekpts [(size_t) (mix3 (s, 0x5eec, (uint64_t) j) % seekpts.size ())] : (int64_t) (mix3 (s, 0xfa17, (uint64_t) j) % (uint64_t) total) ;
		if (!chosen.insert (k).second) continue ;
		const FaultPoint &fp = pts [(size_t) k] ;
		// a call that never returns costs a whole step budget: once a persistent fault of one kind has hung a given op, later I/O
		// steps of the same op with the same persistent kind are not enumerated again (counted, not covered)
		if (fp.persistent && hung.count ({ fp.op, fp.kind })) { skipped_same_hang ++ ; continue ; }
		J p2 = plan ; p2 ["cfg"].erase ("enumerate") ;
		J fl = J::arr () ; J fj = J::obj () ;
		fj ["task"] = 0 ; fj ["op"] = fp.op ; fj ["io"] = fp.io ; fj ["kind"] = fault_name (fp.kind) ; fj ["arg"] = (long long) fp.arg ; fj ["persistent"] = fp.persistent ? 1 : 0 ;
		fl.push (fj) ; p2 ["faults"] = fl ;
		note_current_plan (p2) ;
		Result r = execute (p2) ;
		v.absorb (r) ;
		covered ++ ;
		if (r.have_fault_snapshot) fired ++ ;
		if (r.budget_hit && fp.persistent) hung.insert ({ fp.op, fp.kind }) ;
		size_t before = v.findings.size () ;
		add_owned (v, "C15", r, owned_c15 ()) ;
		check_store_prefix (v, p2, r, base, *f) ;
		for (size_t q = before ; q < v.findings.size () ; q++) v.findings [q].plan = p2 ;
	}
	note_current_plan (J ()) ;
	v.extra = J::obj () ;
	v.extra ["fault_points_total"] = (long long) total ; v.extra ["fault_points_covered"] = (long long) covered ; v.extra ["fault_points_fired"] = (long long) fired ;
	if (all_points) v.probes ["plans_with_every_fault_point_enumerated"] ++ ;
	if (skipped_same_hang) v.probes ["fault_points_skipped_same_hang"] += (uint64_t) skipped_same_hang ;
	v.probes ["fault_points_total"] += (uint64_t) total ; v.probes ["fault_points_covered"] += (uint64_t) covered ; v.probes ["fault_points_fired"] += (uint64_t) fired ;
	v.nontrivial = fired > 0 ;
	return v ;
}

// ------------------------------------------------------------------------------------------ C16

static J random_fault (GenCtx &g, int nops, bool vio)
{	static const int vk [] = { F_VIO_READ_ZERO, F_VIO_READ_SHORT, F_VIO_WRITE_ZERO, F_VIO_WRITE_SHORT, F_VIO_SEEK_FAIL, F_VIO_SEEK_WRONG, F_VIO_TELL_WRONG, F_VIO_LEN_SMALL, F_VIO_LEN_BIG } ;
	static const int fk [] = { F_FD_READ_EIO, F_FD_WRITE_EIO, F_FD_WRITE_ENOSPC, F_FD_EBADF, F_FD_LSEEK_FAIL, F_FD_FSTAT_FAIL, F_FD_FTRUNC_FAIL, F_FD_CLOSE_FAIL, F_OPEN_FAIL, F_TMP_WRITE_SHORT } ;
	J fj = J::obj () ;
	fj ["task"] = 0 ; fj ["op"] = (long long) g.rng.below ((uint64_t) std::max (1, nops)) ; fj ["io"] = (long long) g.rng.pick<int64_t> ({ 1, 1, 2, 3, 5, 8, 13, 21, 40 }) ;
	fj ["kind"] = fault_name (vio ? vk [g.rng.below (9)] : fk [g.rng.below (10)]) ;
	fj ["arg"] = (long long) g.rng.pick<int64_t> ({ 0, 0, 1, 3, 7 }) ; fj ["persistent"] = g.rng.chance (0.5) ? 1 : 0 ;
	return fj ;
}

static J gen_c16 (uint64_t seed, uint64_t idx)
{	const std::vector<Fmt> &fmts = all_formats () ;
	J plan = plan_skeleton ("C16", seed, idx) ;
	GenCtx g (sub_seed (seed, "C16", idx)) ;
	// bias: ALAC (temp files), SD2 (resource fork), chunk / metadata capable containers
	const Fmt *fp = &fmts [idx % fmts.size ()] ;
	if (g.rng.chance (0.3))
	{	std::vector<const Fmt *> pool ;
		for (auto &f : fmts) if (f.major == SF_FORMAT_SD2) { pool.push_back (&f) ; pool.push_back (&f) ; pool.push_back (&f) ; }
		for (auto &f : fmts) if ((f.sub >= SF_FORMAT_ALAC_16 && f.sub <= SF_FORMAT_ALAC_32) || f.major == SF_FORMAT_SD2 || chunk_capable (f)) pool.push_back (&f) ;
		fp = g.rng.pick (pool) ;
	}
	const Fmt &f = *fp ;
	int rate = g.pick_rate (f, false) ;
	int ch = g.pick_channels (f, rate) ; if (ch > 16) ch = valid_channels (f, 2, rate) ? 2 : 1 ;
	std::string route = g.pick_route (f, true) ;
	J &cfg = plan ["cfg"] ;
	cfg ["fmt"] = f.name ; cfg ["ch"] = ch ; cfg ["sr"] = rate ; cfg ["route"] = route ;
	DataDesc d ; d.cls = "noise" ; d.stream = (int64_t) g.rng.below (100) ; cfg ["data"] = data_desc_to (d) ;
	int T = (int) g.rng.below (4) ; cfg ["T"] = stype_name (T) ;
	if (route != "vio" && g.rng.chance (0.2)) cfg ["fd0"] = 1 ;		// as if stdin were closed: the first descriptor handed out is number 0
	J ops = J::arr () ;
	int64_t cap = 3000 / ch + 4 ;
	int shape = (int) g.rng.below (6) ;
	if (shape == 0)
	{	// handles closed without any I/O
		J o = mkop ("open") ; o ["mode"] = g.rng.chance (0.5) ? "w" : "rw" ; o ["expect"] = "any" ; ops.push (o) ;
		if (g.rng.chance (0.5)) add_metadata (g, ops, f, 0.7) ;
		ops.push (mkop ("close")) ;
		J o2 = mkop ("open") ; o2 ["mode"] = "r" ; o2 ["expect"] = "any" ; ops.push (o2) ;
		ops.push (mkop ("close")) ;
	}
	else
	{	J o = mkop ("open") ; o ["mode"] = "w" ; ops.push (o) ;
		if (f.is_float || f.is_double) if (g.rng.chance (0.3)) { J c = mkop ("cmd") ; c ["id"] = "peak_chunk" ; c ["arg"] = (int) g.rng.below (2) ; ops.push (c) ; }
		add_metadata (g, ops, f, 0.8) ;
		add_writes (g, ops, f, ch, rate, (int) g.rng.range (0, 4), g.rng.chance (0.5) ? -1 : T, cap) ;
		if (g.rng.chance (0.3)) { J rd = mkop ("read") ; rd ["T"] = stype_name (T) ; rd ["n"] = 3 ; ops.push (rd) ; }		// failing call on a write handle
		if (g.rng.chance (0.3)) add_metadata (g, ops, f, 0.5) ;		// too late
		if (has_header (f) && g.rng.chance (0.3)) { J c = mkop ("cmd") ; c ["id"] = "update_header" ; ops.push (c) ; }
		ops.push (mkop ("close")) ;
		bool empty_fork = false ;
		if (shape >= 3)
		{	// malformed input rejected at some parse depth
			J c = mkop ("corrupt") ; J ed = J::arr () ;
			int ne = (int) g.rng.range (1, 3) ;
			for (int k = 0 ; k < ne ; k++)
			{	J e = J::obj () ;
				static const char *kinds [] = { "truncate", "truncate", "flip", "set", "field", "zero", "random_tail" } ;
				e ["kind"] = kinds [g.rng.below (7)] ; e ["off"] = (long long) g.rng.below (1 << 16) ; e ["len"] = (long long) g.rng.below (1 << 16) ; e ["bit"] = (int) g.rng.below (8) ;
				e ["val"] = (long long) g.rng.pick<int64_t> ({ 0, 1, -1, 0x7f, 0x80, 0xff, 0x7fffffff, (int64_t) 0x80000000LL, 0xffffffffLL }) ; e ["width"] = (int) g.rng.pick<int> ({ 1, 2, 4, 8 }) ; e ["be"] = (int) g.rng.below (2) ;
				e ["region"] = g.rng.chance (0.8) ? "head" : "any" ; e ["keep"] = (long long) g.rng.range (4, 64) ;
				ed.push (e) ;
			}
			if (needs_path_route (f) && g.rng.chance (0.6))
			{	c ["rsrc"] = 1 ;
				if (g.rng.chance (0.5))
				{	// resource map fields: located through the map offset stored at byte 4 of the fork (big endian)
					J e = J::obj () ; e ["kind"] = "field_via" ; e ["ptr_off"] = 4 ; e ["ptr_width"] = 4 ; e ["ptr_be"] = 1 ;
					e ["delta"] = (long long) g.rng.pick<int64_t> ({ 24, 26, 28, 30, 32, 34, 36, 38 }) ; e ["width"] = 2 ; e ["be"] = 1 ;
					e ["val"] = (long long) g.rng.pick<int64_t> ({ 0, 1, 2, 0x7f, 0xff, 0x7ff0, 0x7fff, 0xfffe, 0xffff }) ;
					ed = J::arr () ; ed.push (e) ;
				}
			}
			// a side-car resource fork that exists but is empty (a copy tool created it and never filled it in): own stream
			GenCtx gx (sub_seed (seed, "C16x", idx)) ;
			if (needs_path_route (f) && gx.rng.chance (0.2))
			{	c ["rsrc"] = 1 ; empty_fork = true ;
				J e = J::obj () ; e ["kind"] = "truncate" ; e ["len"] = 0 ; e ["region"] = "any" ; ed = J::arr () ; ed.push (e) ;
			}
			c ["edits"] = ed ; ops.push (c) ;
		}
		J o2 = mkop ("open") ; o2 ["mode"] = g.rng.chance (0.85) ? "r" : "rw" ; o2 ["expect"] = "any" ; if (empty_fork && (idx & 1)) o2 ["mode"] = "rw" ; ops.push (o2) ;
		add_getters (g, ops, 0.5) ;
		if (g.rng.chance (0.6)) { J rd = mkop ("read") ; rd ["T"] = stype_name ((int) g.rng.below (4)) ; rd ["fr"] = 1 ; rd ["n"] = (long long) g.pick_frames (1, ch, cap) ; ops.push (rd) ; }
		if (g.rng.chance (0.3)) { J q = mkop ("query") ; q ["id"] = k_queries [g.rng.below (17)] ; ops.push (q) ; }
		if (g.rng.chance (0.3)) { J w = mkop ("write") ; w ["T"] = stype_name (T) ; w ["n"] = 2 ; ops.push (w) ; }			// failing call on a read handle
		if (g.rng.chance (0.3)) { J s = mkop ("seek") ; s ["off"] = (long long) g.rng.range (-5, 50) ; s ["whence"] = (int) g.rng.below (4) ; ops.push (s) ; }
		ops.push (mkop ("close")) ;
	}
	J task = J::obj () ; task ["ops"] = ops ;
	plan ["tasks"].push (task) ;
	if (g.rng.chance (0.3))
	{	J fl = J::arr () ; fl.push (random_fault (g, (int) ops.size (), route == "vio")) ; plan ["faults"] = fl ; }
	return plan ;
}

static Verdict check_c16 (const J &plan)
{	Verdict v ;
	Result r = execute (plan) ;
	v.absorb (r) ;
	static const std::map<std::string, std::string> owned = {
		{ "audit.heap", "heap" }, { "audit.fd", "fd" }, { "audit.tmp", "tmp" }, { "audit.other", "fd" }, { "close.ret", "close.ret" },
		{ "fd.not_closed", "fd.ownership" }, { "fd.closed_unowned", "fd.ownership" }, { "fd.double_close", "fd.ownership" } } ;
	add_owned (v, "C16", r, owned) ;
	v.fmt = plan.at ("cfg").gets ("fmt") ; v.route = plan.at ("cfg").gets ("route") ;
	v.shape = plan_shape (plan) ;
	v.nontrivial = r.lib_allocs > 1 ;
	v.probes ["lib_allocations"] += r.lib_allocs ;
	return v ;
}

// ------------------------------------------------------------------------------------------ C11

static J gen_c11 (uint64_t seed, uint64_t idx)
{	static std::vector<const Fmt *> fmts = [] { std::vector<const Fmt *> v ; for (auto &f : all_formats ())
		if (has_header (f) && !(f.major == SF_FORMAT_CAF && f.sub >= SF_FORMAT_ALAC_16 && f.sub <= SF_FORMAT_ALAC_32) && f.major != SF_FORMAT_SD2) v.push_back (&f) ; return v ; } () ;
	J plan = plan_skeleton ("C11", seed, idx) ;
	GenCtx g (sub_seed (seed, "C11", idx)) ;
	const Fmt &f = *fmts [idx % fmts.size ()] ;
	int rate = g.pick_rate (f, false) ;
	int ch = g.pick_channels (f, rate) ; if (ch > 16) ch = valid_channels (f, 2, rate) ? 2 : 1 ;
	J &cfg = plan ["cfg"] ;
	cfg ["fmt"] = f.name ; cfg ["ch"] = ch ; cfg ["sr"] = rate ; cfg ["route"] = g.pick_route (f, true) ;
	DataDesc d ; d.cls = g.pick_class (f.is_float || f.is_double) ; d.k = (int) g.rng.range (1, 8) ; d.stream = (int64_t) g.rng.below (1000) ; cfg ["data"] = data_desc_to (d) ;
	std::vector<int> Ts ; for (int T = 0 ; T < 4 ; T++) if (lossless_lowzero (f, T) >= 0) Ts.push_back (T) ;
	int T = Ts.empty () ? (int) g.rng.below (4) : g.rng.pick (Ts) ;
	cfg ["T"] = stype_name (T) ;
	if (!Ts.empty ()) cfg ["model"] = stype_name (T) ;
	bool autom = g.rng.chance (0.4) ;
	cfg ["auto"] = autom ? 1 : 0 ;
	J ops = J::arr () ;
	J o = mkop ("open") ; o ["mode"] = "w" ; ops.push (o) ;
	if (g.rng.chance (0.3)) add_metadata (g, ops, f, 0.5, true) ;		// other metadata kinds are the subject of C12 / C13
	if (autom) { J c = mkop ("cmd") ; c ["id"] = "auto_header" ; c ["arg"] = 1 ; ops.push (c) ; }
	int B = block_frames (f, ch, rate) ;
	int nw = (int) g.rng.range (2, 10) ;
	int64_t cap = 6000 / ch + 4, N = 0 ;
	bool granular = f.sample_granular () && !f.lossy && f.bits + (f.is_float || f.is_double) > 0 && !(f.sub == SF_FORMAT_DWVW_12 || f.sub == SF_FORMAT_DWVW_16 || f.sub == SF_FORMAT_DWVW_24 || f.sub == SF_FORMAT_DPCM_8 || f.sub == SF_FORMAT_DPCM_16) ;
	bool rawmix = granular && g.rng.chance (0.15) ;
	int64_t wrp = 0 ;		// write pointer
	// a fifth of the sample-granular histories are written in two sessions: the file is closed half way (pad bytes, trailing chunks
	// and strings now follow the audio) and re-opened read/write to append the rest
	bool two_sessions = granular && !rawmix && g.rng.chance (0.2) ;
	for (int k = 0 ; k < nw ; k++)
	{	if (two_sessions && k == nw / 2)
		{	ops.push (mkop ("close")) ;
			J o3 = mkop ("open") ; o3 ["mode"] = "rw" ; o3 ["expect"] = "any" ; ops.push (o3) ;
			if (autom) { J c = mkop ("cmd") ; c ["id"] = "auto_header" ; c ["arg"] = 1 ; ops.push (c) ; }
			wrp = N ;
		}
		// the writer may go back and overwrite a stretch of what it already wrote: the write pointer then sits behind the end
		if (granular && N > 2 && g.rng.chance (0.2))
		{	J s = mkop ("seek") ; int64_t tgt = (int64_t) g.rng.below ((uint64_t) N) ; s ["off"] = (long long) tgt ; s ["whence"] = 0 ; ops.push (s) ; wrp = tgt ;
			J w = mkop ("write") ; w ["T"] = stype_name (T) ; if (g.rng.chance (0.5)) w ["fr"] = 1 ;
			int64_t n = g.rng.range (1, std::max<int64_t> (1, std::min<int64_t> (N - tgt, 40))) ; w ["n"] = (long long) n ; ops.push (w) ; wrp += n ;
			if (autom) ops.push (mkop ("crash")) ;
			else { J c = mkop ("cmd") ; c ["id"] = "update_header" ; ops.push (c) ; ops.push (mkop ("crash")) ; }
			if (g.rng.chance (0.7)) { J s2 = mkop ("seek") ; s2 ["off"] = 0 ; s2 ["whence"] = 2 ; ops.push (s2) ; wrp = N ; }
		}
		J w = mkop ("write") ; w ["T"] = (rawmix && g.rng.chance (0.5)) ? "raw" : stype_name (T) ; if (g.rng.chance (0.5)) w ["fr"] = 1 ;
		int64_t n = g.pick_frames (B, ch, cap) ; w ["n"] = (long long) n ;
		wrp += n ; if (wrp > N) N = wrp ;
		ops.push (w) ;
		if (autom) ops.push (mkop ("crash")) ;
		else if (g.rng.chance (0.6)) { J c = mkop ("cmd") ; c ["id"] = "update_header" ; ops.push (c) ; ops.push (mkop ("crash")) ; }
	}
	ops.push (mkop ("close")) ;
	J o2 = mkop ("open") ; o2 ["mode"] = "r" ; ops.push (o2) ;
	J rd = mkop ("read") ; rd ["T"] = stype_name (T) ; rd ["fr"] = 1 ; rd ["n"] = (long long) (N + 2 * B + 8) ; ops.push (rd) ;
	ops.push (mkop ("close")) ;
	J task = J::obj () ; task ["ops"] = ops ;
	plan ["tasks"].push (task) ;
	return plan ;
}

static Verdict check_c11 (const J &plan)
{	Verdict v ;
	Result r = execute (plan) ;
	v.absorb (r) ;
	static const std::map<std::string, std::string> owned = {
		{ "crash.open", "open" }, { "crash.params", "params" }, { "crash.frames", "frames" }, { "crash.eof", "eof" }, { "crash.prefix", "prefix" } } ;
	add_owned (v, "C11", r, owned) ;
	v.fmt = plan.at ("cfg").gets ("fmt") ; v.route = plan.at ("cfg").gets ("route") ;
	v.shape = plan_shape (plan) ;
	uint64_t imgs = r.probes.count ("crash_images") ? r.probes.at ("crash_images") : 0 ;
	v.extra = J::obj () ; v.extra ["fault_points_total"] = (long long) imgs ; v.extra ["fault_points_covered"] = (long long) imgs ;
	v.probes ["fault_points_total"] += imgs ; v.probes ["fault_points_covered"] += imgs ;
	// requesting header updates never changes the audio the finished file contains: same plan without updates
	if (v.findings.empty () && imgs > 0)
	{	J p2 = plan ;
		J ops2 = J::arr () ;
		for (auto &op : plan.at ("tasks") [0].at ("ops").a)
		{	std::string k = op.gets ("op"), id = op.gets ("id") ;
			if (k == "crash" || (k == "cmd" && (id == "update_header" || id == "auto_header"))) continue ;
			ops2.push (op) ;
		}
		p2 ["tasks"][0]["ops"] = ops2 ;
		Result r2 = execute (p2) ;
		v.absorb (r2) ;
		// compare the final read-back (last read op of each)
		const Rec *a = nullptr, *b = nullptr ;
		for (auto &x : r.transcript [0]) if (x.api.compare (0, 4, "read") == 0) a = &x ;
		for (auto &x : r2.transcript [0]) if (x.api.compare (0, 4, "read") == 0) b = &x ;
		if (a && b && (a->ret != b->ret || a->dh != b->dh) && r2.viols.empty ())
		{	Finding fd ; char bb [200] ; snprintf (bb, sizeof (bb), "finished file with header updates delivers %lld frames (digest %016llx), without them %lld (digest %016llx)", (long long) a->ret, (unsigned long long) a->dh, (long long) b->ret, (unsigned long long) b->dh) ;
			fd.sig = make_sig_raw ("C11", "audio.unchanged", v.fmt, v.route, "none", a->ret != b->ret ? "count" : "data") ; fd.detail = bb ; v.findings.push_back (fd) ;
		}
		v.probes ["audio_unchanged_differential"] ++ ;
	}
	v.nontrivial = r.probes.count ("crash_image_mid_block") || (imgs > 0 && block_frames (*find_format_name (v.fmt), 1, 8000) == 1) ;
	return v ;
}

// ------------------------------------------------------------------------------------------ C03

static J gen_c03 (uint64_t seed, uint64_t idx)
{	const std::vector<Fmt> &fmts = all_formats () ;
	J plan = plan_skeleton ("C03", seed, idx) ;
	GenCtx g (sub_seed (seed, "C03", idx)) ;
	const Fmt &f = fmts [idx % fmts.size ()] ;
	int rate = g.pick_rate (f, false) ;
	int ch = g.pick_channels (f, rate) ; if (ch > 16) ch = valid_channels (f, 2, rate) ? 2 : 1 ;
	J &cfg = plan ["cfg"] ;
	std::string wroute = needs_path_route (f) ? "path" : "vio" ;
	cfg ["fmt"] = f.name ; cfg ["ch"] = ch ; cfg ["sr"] = rate ; cfg ["route"] = wroute ;
	DataDesc d ; d.cls = g.pick_class (f.is_float || f.is_double) ; d.stream = (int64_t) g.rng.below (1000) ; cfg ["data"] = data_desc_to (d) ;
	int T = (int) g.rng.below (4) ; cfg ["T"] = stype_name (T) ;
	J ops = J::arr () ;
	J o = mkop ("open") ; o ["mode"] = "w" ; ops.push (o) ;
	add_metadata (g, ops, f, 0.6) ;
	int64_t cap = 4000 / ch + 4 ;
	add_writes (g, ops, f, ch, rate, (int) g.rng.range (0, 4), T, cap) ;
	ops.push (mkop ("close")) ;
	// damage
	J c = mkop ("corrupt") ; J ed = J::arr () ;
	int ne = (int) g.rng.pick<int> ({ 1, 1, 1, 2, 2, 3, 5, 8 }) ;
	// chunked containers: a third of the plans use structure-aware damage only (well-formed extra chunks with ids the reader
	// knows but this writer did not produce, boundary values in the first fields of a chunk), so that parsers get past the outer
	// framing and into the per-chunk code
	bool chunked = f.major == SF_FORMAT_AIFF || f.major == SF_FORMAT_SVX || f.major == SF_FORMAT_WAV || f.major == SF_FORMAT_WAVEX || f.major == SF_FORMAT_RF64 || f.major == SF_FORMAT_CAF ;
	bool structured = chunked && g.rng.chance (0.35) ;
	if (structured) ne = (int) g.rng.range (1, 4) ;
	for (int k = 0 ; k < ne ; k++)
	{	J e = J::obj () ;
		static const char *kinds [] = { "flip", "flip", "set", "set", "field", "field", "field", "truncate", "zero", "dup", "append", "random_tail", "random_all" } ;
		std::string kind = kinds [g.rng.below (13)] ;
		if (kind == "random_all" && !g.rng.chance (0.3)) kind = "field" ;
		if (structured)
		{	kind = g.rng.chance (0.55) ? "inject" : "chunk_field" ;
			// ids 0..3 of each family table are the chunks with counts and tables inside
			e ["id"] = (long long) (g.rng.chance (0.5) ? g.rng.below (2) : g.rng.below (24)) ;
			e ["chunk"] = (long long) g.rng.below (64) ; e ["at_end"] = g.rng.chance (0.2) ? 1 : 0 ;
			e ["foff"] = (long long) (g.rng.chance (0.5) ? 0 : g.rng.below (32)) ; e ["fill"] = (int) g.rng.below (4) ; e ["swap"] = g.rng.chance (0.1) ? 1 : 0 ;
		}
		e ["kind"] = kind ; e ["off"] = (long long) g.rng.below (1 << 20) ; e ["to"] = (long long) g.rng.below (1 << 20) ; e ["bit"] = (int) g.rng.below (8) ;
		e ["len"] = (long long) g.rng.pick<int64_t> ({ 1, 4, 16, 64, 512, 4096, (int64_t) g.rng.below (1 << 16) }) ;
		e ["val"] = (long long) g.rng.pick<int64_t> ({ 0, 1, 2, -1, 0x7f, 0x80, 0xff, 0x100, 0x7fff, 0x8000, 0xffff, 0x7fffffff, (int64_t) 0x80000000LL, 0xffffffffLL, 0x7fffffffffffffffLL, (int64_t) g.rng.below (70000) }) ;
		e ["width"] = (int) g.rng.pick<int> ({ 2, 4, 4, 8 }) ; e ["be"] = (int) g.rng.below (2) ;
		if (structured) { e ["len"] = (long long) g.rng.pick<int64_t> ({ 0, 1, 2, 4, 8, 20, 20, 24, 36, 60, 257 }) ; e ["width"] = (int) g.rng.pick<int> ({ 1, 2, 2, 4, 4 }) ; }
		{	// lengths that make a parser step backwards: "minus a few bytes" read as a 32-bit count (own stream)
			GenCtx gv (sub_seed (seed, "C03v", idx * 16 + (uint64_t) k)) ;
			if (gv.rng.chance (0.12)) e ["val"] = (long long) (0x100000000LL - (int64_t) gv.rng.pick<int64_t> ({ 4, 8, 8, 8, 12, 16, 20, 24, 2, 1 })) ;
			if (structured && kind == "chunk_field" && gv.rng.chance (0.4)) e ["size_field"] = 1 ;
		}
		uint64_t rr = g.rng.below (100) ; e ["region"] = rr < 70 ? "head" : rr < 80 ? "tail" : "any" ;
		e ["keep"] = (long long) g.rng.range (4, 128) ;
		ed.push (e) ;
	}
	// files as they occur in the wild around an otherwise valid image (decided from a separate stream, so that the other plans
	// stay what they were): an ID3v2 tag in front of any container (the reader skips it and parses the rest at an offset), a WAV
	// fmt chunk of the "24 bits in a 32-bit container" kind that sends the reader into its content-sniffing code
	{	GenCtx gx (sub_seed (seed, "C03x", idx)) ;
		uint64_t q = gx.rng.below (100) ;
		bool wavfam = f.major == SF_FORMAT_WAV || f.major == SF_FORMAT_WAVEX || f.major == SF_FORMAT_RF64 ;
		J extra = J::arr () ;
		if (q < 8)
		{	J e = J::obj () ; e ["kind"] = "id3_prefix" ; e ["ver"] = (int) gx.rng.range (2, 4) ;
			e ["len"] = (long long) gx.rng.pick<int64_t> ({ 0, 1, 10, 117, 128, 2038, 4086, 4087, 16374, 70000 }) ;
			e ["lie"] = (long long) (gx.rng.chance (0.25) ? gx.rng.pick<int64_t> ({ -1, 1, 1 << 20, 0x0fffffff }) : 0) ; e ["flags"] = (int) (gx.rng.chance (0.2) ? 0x10 : 0) ;
			extra.push (e) ;
		}
		else if (q < 16 && wavfam && ch <= 8)
		{	J e = J::obj () ; e ["kind"] = "wav_broken_fmt" ; e ["bits"] = (int) gx.rng.pick<int> ({ 24, 24, 24, 32, 16 }) ; e ["mult"] = (int) gx.rng.pick<int> ({ 4, 4, 4, 3, 8 }) ; extra.push (e) ; }
		else if (q >= 24 && q < ((f.block_codec || (f.sub >= SF_FORMAT_ALAC_16 && f.sub <= SF_FORMAT_ALAC_32) || f.lossy) ? 84 : 40) && chunked)
		{	// one or two fields of the chunks that describe the encoding set to a boundary value, the image otherwise intact
			// (block codecs and ALAC: most of the plans - their init functions divide by and allocate from these fields)
			for (int k = 0, n = (int) gx.rng.pick<int> ({ 1, 1, 1, 2 }) ; k < n ; k++)
			{	J e = J::obj () ; e ["kind"] = "chunk_field" ; e ["fmt_field"] = 1 ; e ["chunk"] = (long long) gx.rng.below (64) ; e ["foff"] = (long long) gx.rng.below (240) ;
				if (gx.rng.chance (0.7)) e ["primary"] = 1 ;
				if (gx.rng.chance (0.2)) { e ["dup"] = 1 ; e ["at_end"] = gx.rng.chance (0.7) ? 1 : 0 ; e ["to"] = (long long) gx.rng.below (64) ; if (gx.rng.chance (0.5)) e ["chan"] = 1 ; }
				e ["width"] = (int) gx.rng.pick<int> ({ 2, 2, 4, 4 }) ; e ["swap"] = gx.rng.chance (0.05) ? 1 : 0 ;
				e ["val"] = (long long) gx.rng.pick<int64_t> ({ 0, 0, 0, 0, 0, 0, 1, 2, 3, 7, 8, 16, 0x7f, 0x80, 0xff, 0x100, 0x7fff, 0x8000, 0xffff, 0x10000, 0x7fffffff, (int64_t) 0x80000000LL, 0xfffffff8LL, 0xffffffffLL }) ;
				extra.push (e) ;
			}
		}
		else if (q < 24 && wavfam)
		{	// a LIST chunk of a kind this writer never produces (exif, adtl, INFO with unusual ids), before the audio or after it
			J e = J::obj () ; e ["kind"] = "inject" ; e ["id"] = 3 ; e ["len"] = (long long) gx.rng.below (300) ; e ["fill"] = (int) gx.rng.below (2) ;
			e ["chunk"] = (long long) gx.rng.below (64) ; e ["at_end"] = gx.rng.chance (0.3) ? 1 : 0 ; extra.push (e) ;
		}
		if (extra.size ())
		{	// two thirds of them keep the image otherwise intact
			if (gx.rng.chance (0.67)) ed = extra ;
			else { for (size_t k = 0 ; k < ed.size () ; k++) extra.push (ed [k]) ; ed = extra ; }
		}
	}
	c ["edits"] = ed ; if (needs_path_route (f) && g.rng.chance (0.6)) c ["rsrc"] = 1 ; ops.push (c) ;
	// reader
	uint64_t rr = g.rng.below (100) ;
	std::string rroute = needs_path_route (f) ? "path" : rr < 50 ? "vio" : rr < 70 ? "fd" : rr < 85 ? "path" : "fifo" ;
	J o2 = mkop ("open") ; o2 ["mode"] = "r" ; o2 ["expect"] = "any" ; o2 ["route"] = rroute ;
	if (rroute == "fifo") { J ch2 = J::arr () ; for (int k = 0, n = (int) g.rng.range (1, 3) ; k < n ; k++) ch2.push ((long long) g.rng.pick<int64_t> ({ 1, 2, 3, 7, 4095, 4096, 4097, 0 })) ; o2 ["chunks"] = ch2 ; }
	ops.push (o2) ;
	int nops = (int) g.rng.range (1, 40) ;
	for (int k = 0 ; k < nops ; k++)
	{	uint64_t q = g.rng.below (100) ;
		if (q < 40)
		{	J rd = mkop ("read") ; rd ["T"] = stype_name ((int) g.rng.below (g.rng.chance (0.1) ? 5 : 4)) ; if (g.rng.chance (0.5)) rd ["fr"] = 1 ;
			rd ["n"] = (long long) (g.rng.chance (0.1) ? g.rng.range (1, 10 * cap) : g.pick_frames (block_frames (f, ch, rate), ch, -1)) ;
			ops.push (rd) ;
		}
		else if (q < 60)
		{	J s = mkop ("seek") ; s ["whence"] = (int) g.rng.below (3) ;
			s ["off"] = (long long) (g.rng.chance (0.1) ? g.rng.pick<int64_t> ({ 0x7fffffffffffffffLL, -0x7fffffffffffffffLL, 1LL << 40, -(1LL << 40), 0x7fffffff, -0x7fffffffLL - 1 }) : g.rng.range (-cap - 2, cap + 2)) ;
			ops.push (s) ;
		}
		else if (q < 70) { J qq = mkop ("query") ; qq ["id"] = k_queries [g.rng.below (17)] ; ops.push (qq) ; }
		else if (q < 90) add_getters (g, ops, 0.25) ;
		else { J qq = mkop ("query") ; qq ["id"] = g.rng.chance (0.5) ? "calc_max_all" : "calc_norm_max" ; ops.push (qq) ; }
	}
	ops.push (mkop ("close")) ;
	J task = J::obj () ; task ["ops"] = ops ;
	plan ["tasks"].push (task) ;
	return plan ;
}

static Verdict check_c03 (const J &plan)
{	Verdict v ;
	Result r = execute (plan) ;
	v.absorb (r) ;
	static const std::map<std::string, std::string> owned = {
		{ "open.null_no_error", "open.null_no_error" }, { "info.range", "info.range" }, { "info.format_unknown", "info.range" }, { "inv", "inv" },
		{ "read.range", "ret.range" }, { "chunk.iter_endless", "budget" }, { "cues.count_exceeds_buffer", "ret.range" }, { "seek.ret#lt_minus1", "ret.range" }, { "budget", "budget" } } ;
	add_owned (v, "C03", r, owned) ;
	v.fmt = plan.at ("cfg").gets ("fmt") ; v.route = plan.at ("cfg").gets ("route") ;
	v.shape = plan_shape (plan) ;
	// non-trivial: open succeeded after damage, or the parser got past the magic
	bool opened = false ;
	for (auto &x : r.transcript [0]) if (x.api.compare (0, 5, "open:") == 0 && x.api.find (":r") != std::string::npos && x.ret == 1) opened = true ;
	v.nontrivial = opened || r.io.by_class [IO_READ] > 3 ;
	if (opened) v.probes ["open_succeeded_after_damage"] ++ ;
	return v ;
}

// ------------------------------------------------------------------------------------------

extern const Profile k_prof_c15 = { "C15", gen_c15, check_c15, "at least one injected fault fired (not merely configured) inside an op of the faulted phase" } ;
extern const Profile k_prof_c16 = { "C16", gen_c16, check_c16, ">= 1 library allocation beyond the handle itself happened and every handle ended (closed or failed open)" } ;
extern const Profile k_prof_c11 = { "C11", gen_c11, check_c11, ">= 1 crash image taken with n > 0; for block encodings n not a multiple of the block" } ;
extern const Profile k_prof_c03 = { "C03", gen_c03, check_c03, "open succeeded after damage, or the parser read past the first 3 reads before failing" } ;
