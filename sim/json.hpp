// Minimal JSON value (objects keep insertion order). Integers are int64.
#pragma once
#include <cstdint>
#include <cstdio>
#include <cstdlib>
#include <cstring>
#include <string>
#include <vector>
#include <utility>
#include <stdexcept>

struct J
{	enum Type { NUL, BOOL, INT, DBL, STR, ARR, OBJ } ;
	Type t = NUL ;
	int64_t i = 0 ;
	double d = 0 ;
	std::string s ;
	std::vector<J> a ;
	std::vector<std::pair<std::string, J>> o ;

	J () {}
	J (bool b) : t (BOOL), i (b) {}
	J (int v) : t (INT), i (v) {}
	J (unsigned v) : t (INT), i (v) {}
	J (long v) : t (INT), i (v) {}
	J (long long v) : t (INT), i (v) {}
	J (unsigned long v) : t (INT), i ((int64_t) v) {}
	J (unsigned long long v) : t (INT), i ((int64_t) v) {}
	J (double v) : t (DBL), d (v) {}
	J (const char *v) : t (STR), s (v) {}
	J (const std::string &v) : t (STR), s (v) {}
	static J arr () { J j ; j.t = ARR ; return j ; }
	static J obj () { J j ; j.t = OBJ ; return j ; }

	bool is_null () const { return t == NUL ; }
	bool is_obj () const { return t == OBJ ; }
	bool is_arr () const { return t == ARR ; }
	size_t size () const { return t == ARR ? a.size () : t == OBJ ? o.size () : 0 ; }

	const J *find (const std::string &k) const
	{	if (t != OBJ) return nullptr ;
		for (auto &kv : o) if (kv.first == k) return &kv.second ;
		return nullptr ;
	}
	J *find (const std::string &k)
	{	if (t != OBJ) return nullptr ;
		for (auto &kv : o) if (kv.first == k) return &kv.second ;
		return nullptr ;
	}
	bool has (const std::string &k) const { return find (k) != nullptr ; }
	J &operator[] (const std::string &k)
	{	if (t == NUL) t = OBJ ;
		if (J *p = find (k)) return *p ;
		o.emplace_back (k, J ()) ;
		return o.back ().second ;
	}
	const J &at (const std::string &k) const
	{	static const J nul ;
		const J *p = find (k) ;
		return p ? *p : nul ;
	}
	J &operator[] (size_t k) { return a [k] ; }
	const J &operator[] (size_t k) const { return a [k] ; }
	void push (const J &v) { if (t == NUL) t = ARR ; a.push_back (v) ; }
	void erase (const std::string &k)
	{	for (size_t n = 0 ; n < o.size () ; n++) if (o [n].first == k) { o.erase (o.begin () + n) ; return ; }
	}

	int64_t num (int64_t def = 0) const { return t == INT || t == BOOL ? i : t == DBL ? (int64_t) d : def ; }
	double dbl (double def = 0) const { return t == DBL ? d : t == INT ? (double) i : def ; }
	const std::string &str () const { return s ; }
	int64_t geti (const std::string &k, int64_t def = 0) const { const J *p = find (k) ; return p ? p->num (def) : def ; }
	std::string gets (const std::string &k, const std::string &def = "") const { const J *p = find (k) ; return p && p->t == STR ? p->s : def ; }

	static void esc (std::string &out, const std::string &v)
	{	out += '"' ;
		for (unsigned char c : v)
		{	if (c == '"') out += "\\\"" ;
			else if (c == '\\') out += "\\\\" ;
			else if (c == '\n') out += "\\n" ;
			else if (c == '\r') out += "\\r" ;
			else if (c == '\t') out += "\\t" ;
			else if (c < 0x20 || c >= 0x7f) { char b [8] ; snprintf (b, sizeof (b), "\\u%04x", c) ; out += b ; }
			else out += (char) c ;
		}
		out += '"' ;
	}
	void dump (std::string &out) const
	{	char b [64] ;
		switch (t)
		{	case NUL : out += "null" ; break ;
			case BOOL : out += i ? "true" : "false" ; break ;
			case INT : snprintf (b, sizeof (b), "%lld", (long long) i) ; out += b ; break ;
			case DBL : snprintf (b, sizeof (b), "%.17g", d) ; out += b ;
				if (!strpbrk (b, ".eEn")) out += ".0" ;
				break ;
			case STR : esc (out, s) ; break ;
			case ARR :
				out += '[' ;
				for (size_t k = 0 ; k < a.size () ; k++) { if (k) out += ',' ; a [k].dump (out) ; }
				out += ']' ; break ;
			case OBJ :
				out += '{' ;
				for (size_t k = 0 ; k < o.size () ; k++) { if (k) out += ',' ; esc (out, o [k].first) ; out += ':' ; o [k].second.dump (out) ; }
				out += '}' ; break ;
		}
	}
	std::string dump () const { std::string r ; dump (r) ; return r ; }

	// ---- parser
	struct P
	{	const char *p, *e ;
		void ws () { while (p < e && (*p == ' ' || *p == '\n' || *p == '\t' || *p == '\r')) p++ ; }
		[[noreturn]] void fail (const char *m) { throw std::runtime_error (std::string ("json: ") + m) ; }
		J val ()
		{	ws () ;
			if (p >= e) fail ("eof") ;
			if (*p == '{')
			{	J j = J::obj () ; p++ ; ws () ;
				if (p < e && *p == '}') { p++ ; return j ; }
				for (;;)
				{	ws () ; J k = val () ; if (k.t != STR) fail ("key") ;
					ws () ; if (p >= e || *p != ':') fail (":") ; p++ ;
					j.o.emplace_back (k.s, val ()) ;
					ws () ;
					if (p < e && *p == ',') { p++ ; continue ; }
					if (p < e && *p == '}') { p++ ; return j ; }
					fail ("obj") ;
				}
			}
			if (*p == '[')
			{	J j = J::arr () ; p++ ; ws () ;
				if (p < e && *p == ']') { p++ ; return j ; }
				for (;;)
				{	j.a.push_back (val ()) ; ws () ;
					if (p < e && *p == ',') { p++ ; continue ; }
					if (p < e && *p == ']') { p++ ; return j ; }
					fail ("arr") ;
				}
			}
			if (*p == '"')
			{	J j ; j.t = STR ; p++ ;
				while (p < e && *p != '"')
				{	if (*p == '\\' && p + 1 < e)
					{	p++ ;
						switch (*p)
						{	case 'n' : j.s += '\n' ; break ;
							case 'r' : j.s += '\r' ; break ;
							case 't' : j.s += '\t' ; break ;
							case 'b' : j.s += '\b' ; break ;
							case 'f' : j.s += '\f' ; break ;
							case 'u' :
							{	if (p + 4 >= e) fail ("\\u") ;
								char h [5] = { p [1], p [2], p [3], p [4], 0 } ;
								unsigned c = strtoul (h, nullptr, 16) ;
								if (c < 0x100) j.s += (char) c ;
								else { j.s += (char) (0xe0 | (c >> 12)) ; j.s += (char) (0x80 | ((c >> 6) & 0x3f)) ; j.s += (char) (0x80 | (c & 0x3f)) ; }
								p += 4 ; break ;
							}
							default : j.s += *p ;
						}
						p++ ;
					}
					else j.s += *p++ ;
				}
				if (p >= e) fail ("str") ;
				p++ ; return j ;
			}
			if (!strncmp (p, "true", 4)) { p += 4 ; return J (true) ; }
			if (!strncmp (p, "false", 5)) { p += 5 ; return J (false) ; }
			if (!strncmp (p, "null", 4)) { p += 4 ; return J () ; }
			const char *q = p ; bool isd = false ;
			while (q < e && (strchr ("+-0123456789.eE", *q))) { if (*q == '.' || *q == 'e' || *q == 'E') isd = true ; q++ ; }
			if (q == p) fail ("value") ;
			std::string n (p, q) ; p = q ;
			if (isd) return J (strtod (n.c_str (), nullptr)) ;
			return J ((long long) strtoll (n.c_str (), nullptr, 10)) ;
		}
	} ;
	static J parse (const std::string &txt)
	{	P ps { txt.data (), txt.data () + txt.size () } ;
		J j = ps.val () ; ps.ws () ;
		return j ;
	}
	static bool load (const std::string &path, J &out)
	{	FILE *f = fopen (path.c_str (), "rb") ; if (!f) return false ;
		std::string txt ; char buf [65536] ; size_t n ;
		while ((n = fread (buf, 1, sizeof (buf), f)) > 0) txt.append (buf, n) ;
		fclose (f) ;
		try { out = parse (txt) ; } catch (...) { return false ; }
		return true ;
	}
	bool save (const std::string &path) const
	{	FILE *f = fopen (path.c_str (), "wb") ; if (!f) return false ;
		std::string txt = dump () ; txt += '\n' ;
		fwrite (txt.data (), 1, txt.size (), f) ; fclose (f) ; return true ;
	}
} ;
