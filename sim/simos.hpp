// SimOS: the simulated operating system under libsndfile.
// Files, descriptor table, namespace, FIFOs, clock, allocation ledger, fault injection, I/O trace.
#pragma once
#include <cstdint>
#include <map>
#include <memory>
#include <string>
#include <vector>
#include <unordered_map>
#include <sndfile.h>
#include <csetjmp>
#include "rng.hpp"

enum IoClass { IO_READ, IO_WRITE, IO_SEEK, IO_TELL, IO_LEN, IO_OPEN, IO_CLOSE, IO_TRUNC, IO_SYNC, IO_CLASS_COUNT } ;

enum FaultKind
{	F_NONE = 0,
	// failing faults, virtual I/O route
	F_VIO_READ_ZERO, F_VIO_READ_SHORT, F_VIO_WRITE_ZERO, F_VIO_WRITE_SHORT,
	F_VIO_SEEK_FAIL, F_VIO_SEEK_WRONG, F_VIO_TELL_WRONG, F_VIO_LEN_SMALL, F_VIO_LEN_BIG,
	// failing faults, descriptor route
	F_FD_READ_EIO, F_FD_WRITE_EIO, F_FD_WRITE_ENOSPC, F_FD_EBADF, F_FD_LSEEK_FAIL,
	F_FD_FSTAT_FAIL, F_FD_FTRUNC_FAIL, F_FD_CLOSE_FAIL, F_OPEN_FAIL, F_TMP_WRITE_SHORT,
	// benign (must be invisible), descriptor route
	F_FD_SHORT_READ, F_FD_SHORT_WRITE, F_EINTR_READ, F_EINTR_WRITE, F_EINTR_CLOSE,
	F_KIND_COUNT
} ;

const char *fault_name (int kind) ;
int fault_from_name (const std::string &s) ;
int fault_class (int kind) ;		// IoClass the fault applies to
bool fault_is_vio (int kind) ;
bool fault_is_benign (int kind) ;

struct Fault
{	int task = 0, op = 0, io = 1 ;	// arms at the io-th I/O step (1-based) of op `op` of task `task`
	int kind = F_NONE ;
	int64_t arg = 0 ;
	bool persistent = false ;
	// run-time
	bool armed = false ;
	int fired = 0 ;
} ;

struct SimFile
{	std::vector<uint8_t> data ;
	std::string name ;
	bool is_fifo = false ;
	std::vector<int> fifo_chunks ;	// cyclic read chunk schedule (0 = all)
	size_t fifo_pos = 0, fifo_k = 0 ;
	int64_t min_read = -1, max_read_end = -1, min_write = -1, max_write_end = -1 ;
	uint64_t hash () const { return fnv1a (data.data (), data.size ()) ; }
} ;
typedef std::shared_ptr<SimFile> SimFileP ;

struct SimFd
{	SimFileP f ;
	int64_t off = 0 ;
	int flags = 0 ;
	bool is_open = false ;
	bool opened_by_lib = false ;
	bool closed_by_lib = false ;
	int close_count = 0 ;
	bool is_tmp = false ;
} ;

struct SimVio			// user data of the SF_VIRTUAL_IO route
{	SimFileP f ;
	int64_t off = 0 ;
} ;

struct IoStats
{	uint64_t steps = 0 ;
	uint64_t by_class [IO_CLASS_COUNT] = {} ;
	uint64_t faults_fired [F_KIND_COUNT] = {} ;
	uint64_t odd_requests = 0 ;
	uint64_t eintr_absorbed = 0, short_loops = 0 ;
} ;

extern "C" void simos_poison_stack (int fill) ;

struct SimOS
{	// namespace + descriptors
	std::map<std::string, SimFileP> ns ;
	std::map<int, SimFd> fds ;
	int next_fd = 1000 ;
	// pass-through mode (validation of this stub against the real kernel): while a library call runs, every wrapped system call
	// goes to the kernel on real files under pt_root; the namespace is mirrored out before the call and read back after it
	bool passthrough = false ;
	std::string pt_root ;
	std::map<std::string, uint64_t> pt_synced ;
	void pt_sync_out () ;
	void pt_sync_in () ;
	void pt_wipe () ;
	// initial-memory differential: what fresh heap blocks and the unused stack hold when a library call starts (-1 = leave alone).
	// Results must not depend on it; two executions of one plan with different values expose reads of uninitialised memory.
	int mem_fill = -1 ;
	int bind_fd (int fd, SimFileP f, int flags) ;	// a given descriptor number (0 or 1: the process was started with a redirection)
	bool fd_zero = false ;			// plan option: descriptor number 0 is free (stdin closed) and is handed out first
	// clock
	int64_t epoch0 = 1700000000 ;
	int64_t clock_off = 0 ;		// seconds
	uint64_t clock_reads = 0 ;
	// context set by the executor
	bool in_lib = false ;
	int cur_task = 0, cur_op = 0 ;
	int op_io = 0 ;					// I/O steps inside the current op
	int64_t op_budget = 0 ;		// step budget of the current API call (0 = none)
	const char *cur_api = "" ;
	// faults
	std::vector<Fault> faults ;
	std::vector<int> fd_chunks ;	// benign cyclic chunk schedule for fd reads/writes (empty = none)
	size_t fd_chunk_k = 0 ;
	int eintr_every = 0 ;
	uint64_t rw_calls = 0 ;
	int64_t enospc_quota = -1 ;
	// ledger
	std::unordered_map<void *, size_t> ledger ;
	uint64_t lib_allocs = 0, lib_alloc_bytes = 0 ;
	std::vector<std::string> audit_errors ;
	// trace
	uint64_t trace = 1469598103934665603ULL ;
	bool trace_io_enabled = true ;
	IoStats st ;
	bool any_fault_fired = false ;
	int last_fault_kind = F_NONE ;
	bool swallow_stdout = true ;
	uint64_t chatter = 0 ;
	// step-budget overrun is delivered to the executor by longjmp out of the library call (the handle is abandoned)
	jmp_buf jb ;
	bool jmp_armed = false ;
	// optional recording of every I/O step (fault-point enumeration)
	struct IoRec { int task, op, io, cls ; bool vio ; } ;
	bool record_io = false ;
	std::vector<IoRec> io_log ;
	// store contents at the instant the first failing fault fired (C15 store.prefix)
	bool have_fault_snapshot = false ;
	std::map<std::string, std::vector<uint8_t>> fault_snapshot ;

	void reset () ;
	SimFileP file (const std::string &name, bool create = true) ;
	int open_fd (SimFileP f, int flags, bool by_lib) ;	// harness-side helper
	void begin_op (int task, int op, const char *api, int64_t budget) ;
	void end_op () ;
	int64_t now () { clock_reads ++ ; return epoch0 + clock_off ; }
	void trace_mix (uint64_t v) { trace = (trace ^ v) * 1099511628211ULL ; }
	// fault lookup for an I/O event of class c on route (vio or fd); returns fault or nullptr
	Fault *io_event (int cls, bool vio) ;
	void leak_audit (std::vector<std::string> &out) ;
} ;

extern SimOS *g_os ;
extern "C" void simos_die (int code, const char *why) ;

SF_VIRTUAL_IO simos_vio () ;
std::string norm_path (const char *p) ;
